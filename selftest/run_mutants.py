"""Sensitivity self-test: every patch under selftest/mutants (and every seeded change under
seeded/*/patch.diff) is applied to a scratch copy of /repo outside /repo and /verif; the baseline
suite must still pass there; then the tagged property's check runs with VERIF_REPO=<scratch> and
must exit 1 with a VIOLATION line.  Nothing is ever applied to /repo itself.

  python selftest/run_mutants.py [--tier quick] [--only M03,M07] [--all-props]
"""
import argparse
import glob
import json
import os
import re
import shutil
import subprocess
import sys
import time

HERE = os.path.dirname(os.path.abspath(__file__))
ROOT = os.path.dirname(HERE)
PY = sys.executable


def run(cmd, cwd=None, env=None, timeout=3600):
    p = subprocess.run(cmd, cwd=cwd, env=env, capture_output=True, text=True, timeout=timeout)
    return p.returncode, p.stdout + p.stderr


def collect(args):
    items = []
    for path in sorted(glob.glob(os.path.join(HERE, 'mutants', '*.patch'))):
        m = re.match(r'(M\d+)-(C\d+)-(.*)\.patch', os.path.basename(path))
        items.append({'id': m.group(1), 'prop': m.group(2), 'name': m.group(3), 'patch': path})
    for meta in sorted(glob.glob(os.path.join(ROOT, 'seeded', '*', 'meta.json'))):
        d = json.load(open(meta))
        items.append({'id': os.path.basename(os.path.dirname(meta)), 'prop': d['property'], 'name': d.get('title', ''),
                      'patch': os.path.join(os.path.dirname(meta), 'patch.diff')})
    if args.only:
        want = set(args.only.split(','))
        items = [i for i in items if i['id'] in want]
    return items


def main():
    ap = argparse.ArgumentParser()
    ap.add_argument('--tier', default='quick')
    ap.add_argument('--only')
    ap.add_argument('--all-props', action='store_true', help='also run every other property check (false-alarm/attribution view)')
    ap.add_argument('--runs', type=int)
    ap.add_argument('--save-corpus', action='store_true', help='file the minimised history of every catch under regressions/corpus/ (after confirming that it passes on /repo itself)')
    ap.add_argument('--no-corpus', action='store_true', help='do not replay the regression corpus: shows what the seeded search alone finds')
    args = ap.parse_args()
    from_props = ['C01', 'C03', 'C04', 'C05', 'C06', 'C07', 'C08', 'C09', 'C11', 'C12', 'C13', 'C15', 'C16', 'C17']
    rows = []
    for it in collect(args):
        wt = '/tmp/mutant_wt_%s' % it['id']
        subprocess.call(['git', '-C', '/repo', 'worktree', 'remove', '--force', wt], stderr=subprocess.DEVNULL)
        subprocess.check_call(['git', '-C', '/repo', 'worktree', 'add', '-q', '--detach', wt, 'HEAD'])
        try:
            # --3way places every hunk by the blob the patch was made against (recorded in its index line), so that
            # a hunk whose context occurs twice (partition/rpartition, ljust/rjust ...) cannot land in the wrong
            # function after later commits have shifted the line numbers
            rc, out = run(['git', '-C', wt, 'apply', '--3way', it['patch']])
            if rc == 0 and 'with conflicts' in out:
                rc = 1
            if rc != 0:
                rows.append((it, 'PATCH-DOES-NOT-APPLY', '', 0))
                print('%-6s %-4s %-42s PATCH-DOES-NOT-APPLY' % (it['id'], it['prop'], it['name'][:42]), flush=True)
                continue
            rc, out = run([PY, '-m', 'pytest', '-q', '-p', 'no:cacheprovider', '-x'], cwd=wt, env=dict(os.environ, PYTHONDONTWRITEBYTECODE='1'))
            if rc != 0:
                rows.append((it, 'KILLED-BY-EXISTING-SUITE', out.strip().splitlines()[-1] if out.strip() else '', 0))
                print('%-6s %-4s %-42s KILLED-BY-EXISTING-SUITE %s' % (it['id'], it['prop'], it['name'][:42], rows[-1][2][:80]), flush=True)
                continue
            demo = os.path.join(os.path.dirname(it['patch']), 'demo.py')
            if it['id'].startswith('S') and os.path.exists(demo):
                # the change still has to do what its author demonstrated (exit 1 with it, 0 on /repo)
                rc_d, _ = run([PY, '-B', demo], cwd='/tmp', env=dict(os.environ, PYTHONPATH=os.path.join(wt, 'src')))
                rc_o, _ = run([PY, '-B', demo], cwd='/tmp', env=dict(os.environ, PYTHONPATH='/repo/src'))
                if rc_d != 1 or rc_o != 0:
                    rows.append((it, 'DEMO-DOES-NOT-DISCRIMINATE', 'demo rc=%d with the change, %d on /repo' % (rc_d, rc_o), 0))
                    print('%-6s %-4s %-42s %-26s %s' % (it['id'], it['prop'], it['name'][:42], rows[-1][1], rows[-1][2]), flush=True)
                    continue
            props = from_props if args.all_props else [it['prop']]
            caught = []
            t0 = time.time()
            detail = ''
            for prop in props:
                cmd = [PY, '-B', '-m', 'sim.check', '--property', prop, '--tier', args.tier, '--no-evidence']
                if args.runs:
                    cmd += ['--runs', str(args.runs)]
                if args.no_corpus:
                    cmd += ['--no-corpus']
                env = dict(os.environ, VERIF_REPO=wt)
                rc, out = run(cmd, cwd=ROOT, env=env)
                if rc == 1 and 'VIOLATION property=%s' % prop in out:
                    caught.append(prop)
                    rp = re.search(r'VIOLATION property=\S+ replay=(\S+)', out)
                    if args.save_corpus and prop == it['prop'] and rp and os.path.exists(rp.group(1)) and 'sweep' not in rp.group(1) \
                            and '/regressions/' not in rp.group(1):
                        rc2, out2 = run([PY, '-B', '-m', 'sim.check', '--replay', rp.group(1), '--quiet'], cwd=ROOT,
                                        env=dict(os.environ, VERIF_REPO='/repo'))
                        if rc2 == 0:
                            dstdir = os.path.join(ROOT, 'regressions', 'corpus')
                            os.makedirs(dstdir, exist_ok=True)
                            doc = json.load(open(rp.group(1)))
                            doc['note'] = 'history that exposed %s (%s); passes on the unchanged tree' % (it['id'], it['name'][:80])
                            doc['violation'] = None
                            json.dump(doc, open(os.path.join(dstdir, '%s.json' % it['id']), 'w'), indent=1, sort_keys=True)
                    if prop == it['prop']:
                        m = re.search(r'violation: property=\S+ predicate=(\S+) run_index=(-?\d+) ops=(\d+)', out)
                        m2 = re.search(r'regression witness fails again: (\S+) predicate=(\S+)', out)
                        detail = ('%s run=%s ops=%s' % m.groups()) if m else (('witness %s %s' % m2.groups()) if m2 else '')
                elif rc not in (0, 1):
                    detail += ' [%s rc=%d %s]' % (prop, rc, out.strip().splitlines()[-1][:120] if out.strip() else '')
            status = 'CAUGHT' if it['prop'] in caught else 'MISSED'
            rows.append((it, status, detail + ((' also:' + ','.join(c for c in caught if c != it['prop'])) if args.all_props else ''),
                         time.time() - t0))
        finally:
            subprocess.check_call(['git', '-C', '/repo', 'worktree', 'remove', '--force', wt])
            subprocess.call(['git', '-C', '/repo', 'worktree', 'prune'])
        print('%-6s %-4s %-42s %-26s %s (%.0fs)' % (it['id'], it['prop'], it['name'][:42], rows[-1][1], rows[-1][2], rows[-1][3]), flush=True)
    missed = [r for r in rows if r[1] == 'MISSED']
    print('mutants: %d, caught: %d, missed: %d, killed by suite: %d' % (
        len(rows), len([r for r in rows if r[1] == 'CAUGHT']), len(missed), len([r for r in rows if r[1].startswith('KILLED')])))
    return 1 if missed else 0


if __name__ == '__main__':
    sys.exit(main())
