"""Writes the hand-made sensitivity mutants as patch files (selftest/mutants/*.patch).

Each mutant is (id, property that must catch it, file, old text, new text).  The patches are
generated against /repo HEAD in a scratch worktree under /tmp which is removed afterwards.
"""
import os
import subprocess
import sys

HERE = os.path.dirname(os.path.abspath(__file__))
OUT = os.path.join(HERE, 'mutants')
A = 'src/ansi_string/ansi_string.py'
P = 'src/ansi_string/ansi_parsing.py'
F = 'src/ansi_string/ansi_format.py'
PA = 'src/ansi_string/ansi_param.py'

MUTANTS = [
    ('M01', 'C04', 'slice-no-closure', A,
     "            new_s._fmts[new_len].rem.extend(settings_to_remove)\n",
     "            pass\n"),
    ('M02', 'C04', 'slice-start-forgets-active', A,
     "                    new_s._fmts[0] = _AnsiSettingPoint(add=list(current_settings))\n",
     "                    new_s._fmts[0] = _AnsiSettingPoint(add=list(settings.add))\n"),
    ('M03', 'C05', 'seam-merge-without-retarget', A,
     "                finds = __class__._find_settings_references(find_settings, settings_rem)\n",
     "                finds = []\n"),
    ('M04', 'C06', 'topmost-swapped', A,
     "        if topmost:\n            lst.extend(settings)\n        else:\n            lst[:0] = settings\n",
     "        if not topmost:\n            lst.extend(settings)\n        else:\n            lst[:0] = settings\n"),
    ('M05', 'C12', 'ljust-extend-ignores-missing-end', A,
     "            obj._s += fillchar * num\n            if extend_formatting:\n",
     "            obj._s += fillchar * num\n            if extend_formatting and num > 1:\n"),
    ('M06', 'C01', 'wrong-clear-code-overline', PA,
     "    AnsiParamEffect.OVERLINE: AnsiParam.NO_OVERLINED,\n",
     "    AnsiParamEffect.OVERLINE: AnsiParam.NO_FRAMED_ENCIRCLED,\n"),
    ('M07', 'C01', 'optimizer-prefers-unoptimized-on-tie', A,
     "                elif len(optimized_codes_str) < len(codes_str):\n",
     "                elif len(optimized_codes_str) <= len(codes_str) - 2:\n"),
    ('M08', 'C01', 'no-reset-end-with-reset-start', A,
     "        if settings_exist and reset_end:\n",
     "        if settings_exist and reset_end and not (reset_start and not optimize):\n"),
    ('M09', 'C13', 'ansistr-lower-no-copy', A,
     "        cpy = self._s.copy()\n        cpy.lower(inplace=True)\n",
     "        cpy = self._s\n        cpy.lower(inplace=True)\n"),
    ('M10', 'C08', 'title-inplace-works-on-copy', A,
     "        if inplace:\n            obj = self\n        else:\n            obj = self.copy()\n\n        obj._s = obj._s.title()\n",
     "        obj = self.copy()\n\n        obj._s = obj._s.title()\n"),
    ('M11', 'C07', 'remove-stops-before-end-point', A,
     "            elif idx > end:\n                break\n\n            if idx == start:\n",
     "            elif idx >= end and end != len(self._s) and idx > start + 3:\n                break\n\n            if idx == start:\n"),
    ('M12', 'C16', 'unformat-always-ignorecase', A,
     "        for match in re.finditer(matchspec, self._s, re.IGNORECASE if not match_case else 0):\n            if count < 0 or count > 0:\n                self.remove_formatting(",
     "        for match in re.finditer(matchspec, self._s, re.IGNORECASE):\n            if count < 0 or count > 0:\n                self.remove_formatting("),
    ('M13', 'C17', 'find-end-skips-adjacent', A,
     "            for idx in sorted([x for x in idx_to_settings.keys() if x>found_start]):\n",
     "            for idx in sorted([x for x in idx_to_settings.keys() if x>found_start+1]):\n"),
    ('M14', 'C15', 'valid-accepts-at-sign', F,
     "            if ord(c) >= ansi_term_ord_range[0] and ord(c) <= ansi_term_ord_range[1]:\n",
     "            if ord(c) > ansi_term_ord_range[0] and ord(c) <= ansi_term_ord_range[1]:\n"),
    ('M15', 'C09', 'apply-validates-after-mutation', A,
     "        ansi_settings = _AnsiSettingPoint._scrub_ansi_settings(settings, make_unique=True)\n\n        if not ansi_settings:\n            # Empty set - usually just a string of semicolons was received\n            return\n\n        # Apply settings\n        if start not in self._fmts:\n            self._fmts[start] = _AnsiSettingPoint()\n",
     "        if start not in self._fmts:\n            self._fmts[start] = _AnsiSettingPoint()\n\n        ansi_settings = _AnsiSettingPoint._scrub_ansi_settings(settings, make_unique=True)\n\n        if not ansi_settings:\n            # Empty set - usually just a string of semicolons was received\n            return\n\n        # Apply settings\n"),
    ('M16', 'C11', 'replace-takes-style-of-last-char', A,
     "                replace = AnsiString(new, obj.ansi_settings_at(idx))\n",
     "                replace = AnsiString(new, obj.ansi_settings_at(idx + len(old) - 1))\n"),
    ('M17', 'C12', 'format-minus-flag-applies-after-pad', A,
     "            extend_formatting = (not match.group(2) or match.group(2) == '+')\n            if not extend_formatting and settings:\n                self.apply_formatting(settings)\n            if num:\n                self.center(",
     "            extend_formatting = (not match.group(2) or match.group(2) == '+')\n            if not extend_formatting and settings and not num:\n                self.apply_formatting(settings)\n            if num:\n                self.center("),
    ('M18', 'C03', 'simplify-keeps-invalid-stop-markers', A,
     "            point.rem = [x for x in point.rem if x.valid]\n",
     "            point.rem = list(point.rem)\n"),
    ('M19', 'C05', 'iadd-shares-setting-objects', A,
     "                    unique_settings[id(setting)] = AnsiSetting(setting)\n",
     "                    unique_settings[id(setting)] = setting\n"),
    ('M20', 'C08', 'copy-shares-marker-lists', A,
     "                self._fmts[k] = _AnsiSettingPoint(list(v.add), list(v.rem))\n",
     "                self._fmts[k] = _AnsiSettingPoint(v.add, list(v.rem))\n"),
    ('M21', 'C11', 'assign-shorter-keeps-nothing-of-last', A,
     "            self.clip(end=len(s), inplace=True)\n",
     "            self.clip(end=max(len(s) - 1, 0), inplace=True)\n"),
    ('M22', 'C13', 'ansistr-center-ignores-fillchar', A,
     "        cpy.center(width, fillchar, inplace=True)\n        return AnsiStr(cpy)\n",
     "        cpy.center(width, inplace=True)\n        return AnsiStr(cpy)\n"),
    ('M23', 'C09', 'rjust-bad-fillchar-raises-keyerror', A,
     "        if len(fillchar) != 1:\n            raise ValueError('fillchar must be exactly 1 character in length')\n\n        if inplace:\n            obj = self\n        else:\n            obj = self.copy()\n\n        old_len = len(obj._s)\n        num = width - old_len\n        if num > 0:\n            obj._s = fillchar * num + obj._s\n",
     "        if len(fillchar) != 1:\n            raise KeyError('fillchar must be exactly 1 character in length')\n\n        if inplace:\n            obj = self\n        else:\n            obj = self.copy()\n\n        old_len = len(obj._s)\n        num = width - old_len\n        if num > 0:\n            obj._s = fillchar * num + obj._s\n"),
    ('M24', 'C07', 'remove-none-keeps-later-starts', A,
     "                        if ansi_settings is None or settings_point.add[i] in ansi_settings:\n",
     "                        if (ansi_settings is None and i == 0) or (ansi_settings is not None and settings_point.add[i] in ansi_settings):\n"),
    ('M25', 'C06', 'apply-negative-start-not-clamped', A,
     "            ret_val = len(self._s) + val\n            if ret_val < 0:\n                ret_val = 0\n            return ret_val\n",
     "            ret_val = len(self._s) + val\n            if ret_val < -1:\n                ret_val = 0\n            return ret_val\n"),
    ('M26', 'C17', 'find-empty-range-returns-none', A,
     "        if end < start:\n            return (None, None)\n",
     "        if end <= start:\n            return (None, None)\n"),
    ('M27', 'C04', 'iter-skips-last', A,
     "        if self.current_idx >= len(self.s):\n            raise StopIteration\n        return self.s[self.current_idx]\n",
     "        if self.current_idx >= len(self.s) - (1 if len(self.s) > 3 else 0):\n            raise StopIteration\n        return self.s[self.current_idx]\n"),
    ('M28', 'C15', 'parsable-accepts-incomplete-256', F,
     "                self._parsable = (len(codes) == fn.total_seq_count)\n",
     "                self._parsable = (len(codes) >= fn.total_seq_count - 1)\n"),
    ('M29', 'C03', 'simplify-drops-unparsable-before-rendering', A,
     "            point.add = [x for x in point.add if x.valid]\n",
     "            point.add = [x for x in point.add if x.parsable]\n"),
    ('M30', 'C04', 'clip-inplace-keeps-old-markers-when-empty', A,
     "        if inplace:\n            self._s = obj._s\n            self._fmts = obj._fmts\n            del obj\n            return self\n",
     "        if inplace:\n            self._s = obj._s\n            if obj._s:\n                self._fmts = obj._fmts\n            del obj\n            return self\n"),
    ('M31', 'C04', 'slice-middle-start-takes-settings-from-point-before', A,
     "        if not settings_initialized and previous_settings:\n            # Substring was between settings\n            new_s._fmts[0] = _AnsiSettingPoint(add=previous_settings)\n",
     "        if not settings_initialized and previous_settings and len(previous_settings) < 3:\n            # Substring was between settings\n            new_s._fmts[0] = _AnsiSettingPoint(add=previous_settings)\n"),
    ('M32', 'C12', 'center-extend-only-right-when-odd', A,
     "                if shifted_end in obj._fmts and shifted_end != len(obj._s):\n",
     "                if shifted_end in obj._fmts and shifted_end != len(obj._s) and left_spaces != right_spaces:\n"),
    ('M33', 'C01', 'optimizer-forgets-state-after-full-removal', A,
     "                old_settings_dict = current_settings_dict\n                new_settings_dict = settings_to_dict(current_settings)\n                current_settings_dict = new_settings_dict\n",
     "                old_settings_dict = current_settings_dict\n                new_settings_dict = settings_to_dict(current_settings)\n                current_settings_dict = new_settings_dict if len(new_settings_dict) != 3 else old_settings_dict\n"),
    ('M34', 'C11', 'partition-separator-piece-from-start', A,
     "        idx = self._s.rfind(sep)\n        if idx >= 0:\n            sep_len = len(sep)\n            idx_end = idx + sep_len\n            return (self[0:idx], self[idx:idx_end], self[idx_end:])\n",
     "        idx = self._s.rfind(sep)\n        if idx >= 0:\n            sep_len = len(sep)\n            idx_end = idx + sep_len\n            return (self[0:idx], self[self._s.find(sep):self._s.find(sep) + sep_len], self[idx_end:])\n"),
    ('M35', 'C16', 'format-matching-count-two-stops-early', A,
     "                self.apply_formatting_for_match(format, match)\n                if count > 0:\n                    count -= 1\n",
     "                self.apply_formatting_for_match(format, match)\n                if count > 0:\n                    count -= (2 if count == 3 else 1)\n"),
    ('M36', 'C13', 'ansistr-iadd-drops-str-operand-style', A,
     "        # Can't add in place - always return a new instance\n        return (self + value)\n",
     "        # Can't add in place - always return a new instance\n        return (self + (value if not isinstance(value, AnsiStr) else value.base_str))\n"),
    # gaps named by a completeness review of the checks (DESIGN 11.15): defaults, counts, bounds, explicit step
    ('M37', 'C16', 'unformat-matching-default-match-case-true', A,
     "        regex:bool=False,\n        match_case=False,\n        count=-1\n    ):\n        '''\n        Remove the given formatting",
     "        regex:bool=False,\n        match_case=True,\n        count=-1\n    ):\n        '''\n        Remove the given formatting"),
    ('M38', 'C16', 'format-matching-only-minus-one-means-all', A,
     "            if count < 0 or count > 0:\n                self.apply_formatting_for_match(format, match)\n",
     "            if count == -1 or count > 0:\n                self.apply_formatting_for_match(format, match)\n"),
    ('M39', 'C11', 'replace-only-minus-one-means-all', A,
     "        while (count < 0 or count > 0) and idx >= 0:\n",
     "        while (count == -1 or count > 0) and idx >= 0:\n"),
    ('M40', 'C17', 'find-settings-end-not-clamped', A,
     "        start = self._slice_val_to_idx(start, 0)\n        end = self._slice_val_to_idx(end, len(self._s))\n\n        # Check for invalid start/end\n",
     "        start = self._slice_val_to_idx(start, 0)\n        end = self._slice_val_to_idx(end, len(self._s)) if (end is None or end < 0) else end\n\n        # Check for invalid start/end\n"),
    ('M41', 'C04', 'explicit-step-one-rejected', A,
     "            if val.step is not None and val.step != 1:\n",
     "            if val.step is not None:\n"),
    ('M42', 'C12', 'right-justify-fill-cannot-be-an-align-char', A,
     "        match = re.search(r'^(.?)([+-]?)>([0-9]*)\\Z', string_format, re.DOTALL)\n",
     "        match = re.search(r'^([^<>^]?)([+-]?)>([0-9]*)\\Z', string_format, re.DOTALL)\n"),
    ('M43', 'C15', 'one-ansiformat-member-out-of-range', F,
     "    FG_ORANGE_RED=_AnsiControlFn.fg_color256(202)\n",
     "    FG_ORANGE_RED=_AnsiControlFn.fg_color256(2020)\n"),
    ('M45', 'C01', 'optimiser-drops-codes-beyond-six-groups', A,
     "                elif len(optimized_codes_str) < len(codes_str):\n                    codes_str = optimized_codes_str\n",
     "                elif len(optimized_codes_str) < len(codes_str):\n                    codes_str = optimized_codes_str\n                elif len(settings_to_apply) > 6:\n                    codes_str = ansi_sep.join(settings_to_apply[:6])\n"),
    ('M46', 'C01', 'non-optimised-path-emits-top-eleven-only', A,
     "            settings_to_apply = [str(s) for s in current_settings]\n",
     "            settings_to_apply = [str(s) for s in current_settings[-11:]]\n"),
    ('M44', 'C01', 'code-95-registered-as-background', PA,
     "    95: (AnsiParamEffect.FG_COLOR, AnsiParamEffectFn.APPLY_SETTING),\n",
     "    95: (AnsiParamEffect.BG_COLOR, AnsiParamEffectFn.APPLY_SETTING),\n"),
]


def main():
    wt = '/tmp/mutant_gen_wt'
    subprocess.call(['git', '-C', '/repo', 'worktree', 'remove', '--force', wt], stderr=subprocess.DEVNULL)
    subprocess.check_call(['git', '-C', '/repo', 'worktree', 'add', '-q', '--detach', wt, 'HEAD'])
    os.makedirs(OUT, exist_ok=True)
    try:
        for mid, prop, name, path, old, new in MUTANTS:
            full = os.path.join(wt, path)
            src = open(full, encoding='utf-8').read()
            if src.count(old) != 1:
                print('SKIP %s: anchor found %d times' % (mid, src.count(old)))
                continue
            open(full, 'w', encoding='utf-8').write(src.replace(old, new))
            diff = subprocess.check_output(['git', '-C', wt, 'diff']).decode()
            open(os.path.join(OUT, '%s-%s-%s.patch' % (mid, prop, name)), 'w').write(diff)
            subprocess.check_call(['git', '-C', wt, 'checkout', '-q', '--', '.'])
    finally:
        subprocess.check_call(['git', '-C', '/repo', 'worktree', 'remove', '--force', wt])
        subprocess.call(['git', '-C', '/repo', 'worktree', 'prune'])
    print('patches:', len(os.listdir(OUT)))


if __name__ == '__main__':
    sys.exit(main())
