"""Validates a seeded change written by an independent sub-agent and, if it is sound, files it
under /verif/seeded/<id>/.

  python tools/validate_seeded.py C08 1 [--tier quick] [--runs N]

Steps (all in a scratch worktree under /tmp, removed afterwards; /repo itself is never touched):
  1. the patch applies to /repo HEAD, 2. the existing suite passes with it, 3. the demonstration exits 1
  with the patch and 0 without, 4. the property's check is run against the patched tree.
"""
import argparse
import json
import os
import re
import shutil
import subprocess
import sys
import time

ROOT = os.path.dirname(os.path.dirname(os.path.abspath(__file__)))
PY = sys.executable


def sh(cmd, cwd=None, env=None, timeout=3600):
    p = subprocess.run(cmd, cwd=cwd, env=env, capture_output=True, text=True, timeout=timeout)
    return p.returncode, (p.stdout + p.stderr)


def main():
    ap = argparse.ArgumentParser()
    ap.add_argument('prop')
    ap.add_argument('n')
    ap.add_argument('--tier', default='quick')
    ap.add_argument('--runs', type=int)
    ap.add_argument('--src', help='directory with change<n>.diff / demo<n>.py / notes<n>.md (default /tmp/seed_out_<prop>)')
    ap.add_argument('--title', default='')
    ap.add_argument('--needs', default='')
    ap.add_argument('--prefix', default='S', help='id prefix (S: round 1, S2: round 2 written with a generic description of a randomized tester)')
    ap.add_argument('--note', default='')
    ap.add_argument('--edits', action='store_true', help='two-site change: also run the check on editA.diff / editB.diff alone (must be quiet)')
    args = ap.parse_args()
    src = args.src or '/tmp/seed_out_%s' % args.prop
    patch = os.path.join(src, 'change%s.diff' % args.n)
    demo = os.path.join(src, 'demo%s.py' % args.n)
    notes = os.path.join(src, 'notes%s.md' % args.n)
    sid = '%s-%s-%s' % (args.prefix, args.prop, args.n)
    wt = '/tmp/seed_validate_%s' % sid
    subprocess.call(['git', '-C', '/repo', 'worktree', 'remove', '--force', wt], stderr=subprocess.DEVNULL)
    subprocess.check_call(['git', '-C', '/repo', 'worktree', 'add', '-q', '--detach', wt, 'HEAD'])
    ran = []
    try:
        rc, out = sh(['git', '-C', wt, 'apply', '--3way', '--whitespace=nowarn', patch])
        ran.append('git apply -> %d' % rc)
        if rc != 0:
            print(sid, 'REJECTED: patch does not apply:', out[-400:])
            return 2
        rc, out = sh([PY, '-m', 'pytest', '-q', '-p', 'no:cacheprovider'], cwd=wt, env=dict(os.environ, PYTHONDONTWRITEBYTECODE='1'))
        last = out.strip().splitlines()[-1] if out.strip() else ''
        ran.append('pytest (patched) -> %d: %s' % (rc, last))
        if rc != 0:
            print(sid, 'REJECTED: suite fails with the patch:', last)
            return 2
        env_p = dict(os.environ, PYTHONPATH=os.path.join(wt, 'src'), PYTHONDONTWRITEBYTECODE='1')
        env_o = dict(os.environ, PYTHONPATH='/repo/src', PYTHONDONTWRITEBYTECODE='1')
        rc_p, out_p = sh([PY, '-B', demo], cwd='/tmp', env=env_p)
        rc_o, out_o = sh([PY, '-B', demo], cwd='/tmp', env=env_o)
        ran.append('demo (patched) -> %d ; demo (unpatched) -> %d' % (rc_p, rc_o))
        if rc_p != 1 or rc_o != 0:
            print(sid, 'REJECTED: demo exits %d with patch / %d without' % (rc_p, rc_o), out_p[-300:], out_o[-300:])
            return 2
        cmd = [PY, '-B', '-m', 'sim.check', '--property', args.prop, '--tier', args.tier, '--no-evidence']
        if args.runs:
            cmd += ['--runs', str(args.runs)]
        t0 = time.time()
        rc, out = sh(cmd, cwd=ROOT, env=dict(os.environ, VERIF_REPO=wt))
        took = time.time() - t0
        caught = rc == 1 and ('VIOLATION property=%s' % args.prop) in out
        m = re.search(r'violation: property=\S+ predicate=(\S+) run_index=(-?\d+) ops=(\d+)', out)
        m2 = re.search(r'regression witness fails again: (\S+) predicate=(\S+)', out)
        how = ('predicate %s at run %s, minimised to %s ops' % m.groups()) if m else (
            ('regression witness %s (%s)' % m2.groups()) if m2 else ('sweep' if 'sweep' in out else ''))
        ran.append('%s (VERIF_REPO=patched) -> %d in %.0fs %s' % (' '.join(cmd[2:]), rc, took, how))
        if rc not in (0, 1):
            print(sid, 'CHECK PROBLEM rc=%d' % rc, out[-800:])
        dst = os.path.join(ROOT, 'seeded', sid)
        os.makedirs(dst, exist_ok=True)
        shutil.copy(patch, os.path.join(dst, 'patch.diff'))
        shutil.copy(demo, os.path.join(dst, 'demo.py'))
        if os.path.exists(notes):
            shutil.copy(notes, os.path.join(dst, 'notes.md'))
        meta = {
            'id': sid,
            'property': args.prop,
            'title': args.title,
            'needs_to_manifest': args.needs,
            'written_by': args.note or 'independent sub-agent given only the property text and a scratch worktree',
            'validated': ran,
            'detected_by_quick_check': bool(caught),
            'detection': how,
            'repo_head': subprocess.check_output(['git', '-C', '/repo', 'rev-parse', '--short', 'HEAD']).decode().strip(),
        }
        json.dump(meta, open(os.path.join(dst, 'meta.json'), 'w'), indent=1)
        if args.edits:
            # two-site changes: each edit alone is claimed to keep the property -> the check must stay quiet on it
            for nm in ('editA', 'editB'):
                ep = os.path.join(src, nm + '.diff')
                if not os.path.exists(ep):
                    meta[nm] = 'missing'
                    continue
                wt2 = wt + '_' + nm
                subprocess.call(['git', '-C', '/repo', 'worktree', 'remove', '--force', wt2], stderr=subprocess.DEVNULL)
                subprocess.check_call(['git', '-C', '/repo', 'worktree', 'add', '-q', '--detach', wt2, 'HEAD'])
                try:
                    rc_a, out_a = sh(['git', '-C', wt2, 'apply', '--3way', '--whitespace=nowarn', ep])
                    rc_t, out_t = sh([PY, '-m', 'pytest', '-q', '-p', 'no:cacheprovider'], cwd=wt2,
                                     env=dict(os.environ, PYTHONDONTWRITEBYTECODE='1'))
                    rc_d, _ = sh([PY, '-B', demo], cwd='/tmp', env=dict(os.environ, PYTHONPATH=os.path.join(wt2, 'src'),
                                                                         PYTHONDONTWRITEBYTECODE='1'))
                    rc_c, out_c = sh(cmd, cwd=ROOT, env=dict(os.environ, VERIF_REPO=wt2))
                    mm = re.search(r'violation: property=\S+ predicate=(\S+)', out_c)
                    meta[nm] = 'apply=%d pytest=%d demo=%d check=%d %s' % (rc_a, rc_t, rc_d, rc_c, mm.group(1) if mm else '')
                    shutil.copy(ep, os.path.join(dst, nm + '.diff'))
                    print('   %s alone: pytest rc=%d, demo rc=%d, check rc=%d %s' % (nm, rc_t, rc_d, rc_c, mm.group(1) if mm else ''))
                finally:
                    subprocess.check_call(['git', '-C', '/repo', 'worktree', 'remove', '--force', wt2])
            json.dump(meta, open(os.path.join(dst, 'meta.json'), 'w'), indent=1)
        print(sid, 'VALID;', 'CAUGHT' if caught else 'MISSED', how, '(%.0fs)' % took)
        if m:
            print('   first lines of the report:')
            for line in out.splitlines():
                if line.startswith('  op[') or line.startswith(' "predicate"'):
                    print('   ' + line[:200])
        return 0 if caught else 1
    finally:
        subprocess.check_call(['git', '-C', '/repo', 'worktree', 'remove', '--force', wt])
        subprocess.call(['git', '-C', '/repo', 'worktree', 'prune'])


if __name__ == '__main__':
    sys.exit(main())
