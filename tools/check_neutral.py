"""False-alarm probe: applies a behaviour-preserving change (written by a sub-agent that was told to keep
every property true) to a scratch worktree and runs ALL quick checks against it.  Any alarm must then
be triaged by hand: either the change does break a property, or the check is over-strict.

  python tools/check_neutral.py /tmp/neutral_out_1/neutral1.diff [--runs N] [--keep DIR]
"""
import argparse
import os
import re
import shutil
import subprocess
import sys

ROOT = os.path.dirname(os.path.dirname(os.path.abspath(__file__)))
PY = sys.executable
PROPS = ['C01', 'C03', 'C04', 'C05', 'C06', 'C07', 'C08', 'C09', 'C11', 'C12', 'C13', 'C15', 'C16', 'C17']


def sh(cmd, cwd=None, env=None, timeout=3600):
    p = subprocess.run(cmd, cwd=cwd, env=env, capture_output=True, text=True, timeout=timeout)
    return p.returncode, p.stdout + p.stderr


def main():
    ap = argparse.ArgumentParser()
    ap.add_argument('diff')
    ap.add_argument('--runs', type=int)
    ap.add_argument('--props')
    ap.add_argument('--file-as', help='copy the diff and its .md into /verif/neutral/<name>/ with the result')
    a = ap.parse_args()
    tag = re.sub(r'[^A-Za-z0-9]+', '_', a.diff)[-40:]
    wt = '/tmp/neutral_check_%s' % tag
    subprocess.call(['git', '-C', '/repo', 'worktree', 'remove', '--force', wt], stderr=subprocess.DEVNULL)
    subprocess.check_call(['git', '-C', '/repo', 'worktree', 'add', '-q', '--detach', wt, 'HEAD'])
    alarms = []
    try:
        rc, out = sh(['git', '-C', wt, 'apply', '--3way', '--whitespace=nowarn', a.diff])
        if rc != 0:
            print('patch does not apply', out[-300:])
            return 2
        rc, out = sh([PY, '-m', 'pytest', '-q', '-p', 'no:cacheprovider'], cwd=wt, env=dict(os.environ, PYTHONDONTWRITEBYTECODE='1'))
        print('pytest:', out.strip().splitlines()[-1] if out.strip() else rc)
        if rc != 0:
            return 2
        for prop in (a.props.split(',') if a.props else PROPS):
            cmd = [PY, '-B', '-m', 'sim.check', '--property', prop, '--tier', 'quick', '--no-evidence']
            if a.runs:
                cmd += ['--runs', str(a.runs)]
            rc, out = sh(cmd, cwd=ROOT, env=dict(os.environ, VERIF_REPO=wt))
            if rc != 0:
                m = re.search(r'violation: property=\S+ predicate=(\S+) run_index=(-?\d+) ops=(\d+)', out)
                m2 = re.search(r'regression witness fails again: (\S+) predicate=(\S+)', out)
                what = ('%s run=%s ops=%s' % m.groups()) if m else (('witness %s %s' % m2.groups()) if m2 else out.strip()[-300:])
                alarms.append((prop, rc, what))
                print('ALARM', prop, 'rc=%d' % rc, what)
                ops_lines = [line for line in out.splitlines() if line.startswith('  op[')]
                for line in ops_lines[:8]:
                    print('     ', line[:220])
                rp = re.search(r'VIOLATION property=\S+ replay=(\S+)', out)
                if rp and os.path.exists(rp.group(1)):
                    shutil.copy(rp.group(1), '/tmp/neutral_alarm_%s_%s.json' % (tag, prop))
            else:
                print('ok   ', prop)
    finally:
        subprocess.check_call(['git', '-C', '/repo', 'worktree', 'remove', '--force', wt])
        subprocess.call(['git', '-C', '/repo', 'worktree', 'prune'])
    if a.file_as:
        dst = os.path.join(ROOT, 'neutral', a.file_as)
        os.makedirs(dst, exist_ok=True)
        shutil.copy(a.diff, os.path.join(dst, 'patch.diff'))
        md = a.diff[:-5] + '.md'
        if os.path.exists(md):
            shutil.copy(md, os.path.join(dst, 'notes.md'))
        with open(os.path.join(dst, 'result.txt'), 'w') as f:
            f.write('alarms: %s\n' % (alarms or 'none'))
    print('alarms:', alarms or 'none')
    return 1 if alarms else 0


if __name__ == '__main__':
    sys.exit(main())
