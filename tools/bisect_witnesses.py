"""For every regression witness, find the first /repo commit at which it stops failing.
Scratch worktrees under /tmp, removed afterwards.  Usage: python tools/bisect_witnesses.py"""
import glob, json, os, subprocess, sys
ROOT = os.path.dirname(os.path.dirname(os.path.abspath(__file__)))
commits = subprocess.check_output(['git', '-C', '/repo', 'log', '--reverse', '--format=%h %s']).decode().strip().split('\n')
wits = sorted(glob.glob(os.path.join(ROOT, 'regressions', '*.json')))
status = {w: [] for w in wits}
for line in commits:
    h = line.split()[0]
    wt = '/tmp/wt_bisect_' + h
    subprocess.check_call(['git', '-C', '/repo', 'worktree', 'add', '-q', '--detach', wt, h])
    try:
        for w in wits:
            env = dict(os.environ, VERIF_REPO=wt)
            p = subprocess.run([sys.executable, '-B', '-m', 'sim.check', '--replay', w, '--quiet'], cwd=ROOT, env=env,
                               capture_output=True, text=True)
            status[w].append(p.returncode)
    finally:
        subprocess.check_call(['git', '-C', '/repo', 'worktree', 'remove', '--force', wt])
subprocess.call(['git', '-C', '/repo', 'worktree', 'prune'])
for w in wits:
    st = status[w]
    first_pass = next((i for i, rc in enumerate(st) if rc == 0 and all(x == 0 for x in st[i:])), None)
    print(os.path.basename(w), ''.join(str(x) for x in st), 'fixed_by', commits[first_pass] if first_pass is not None else None)
