"""Builds selftest/RESULTS.md from the output of `selftest/run_mutants.py --no-corpus` (file given as argument)."""
import json
import os
import re
import subprocess
import sys

ROOT = os.path.dirname(os.path.dirname(os.path.abspath(__file__)))


def main():
    src = sys.argv[1]
    head = subprocess.check_output(['git', '-C', '/repo', 'rev-parse', '--short', 'HEAD'], text=True).strip()
    rows = []
    summary = ''
    for line in open(src, encoding='utf-8'):
        line = line.rstrip('\n')
        if line.startswith('mutants:'):
            summary = line
            continue
        m = re.match(r'(\S+)\s+(C\d\d)\s+(.*?)\s+(CAUGHT|MISSED|KILLED-BY-EXISTING-SUITE|PATCH-DOES-NOT-APPLY|DEMO-DOES-NOT-DISCRIMINATE)\s*(.*)$', line)
        if not m or m.group(1) in ('WARNING',):
            continue
        rows.append(m.groups())
    final = {}
    for r in rows:
        final[r[0]] = r     # the last line per id is the result line
    out = ['# Sensitivity results (selftest/run_mutants.py --no-corpus, quick tier, /repo HEAD %s)' % head, '',
           'Every change is applied (3-way, by the blob it was made against) to a scratch worktree under /tmp, the 306-test',
           'suite is run there, a seeded change\'s own demonstration must still fail with it and pass on /repo, then the tagged',
           'property\'s quick check runs with VERIF_REPO pointing at the scratch tree and *without* the regression corpus, so a',
           'CAUGHT below is the seeded search (plus the two exhaustive sweeps of C01/C03) alone.  `M..` are hand-made',
           '(selftest/make_mutants.py); `S-`, `S2-` ... `S6-` were written by independent sub-agents (seeded/<id>/, rounds 1-6).',
           'A MISSED row carries the triage note of its meta.json: behaviour outside the claimed properties, a change caught',
           'by another property\'s check than the one its author aimed at, or sampling variance of the corpus-less search',
           '(such a change is reported at once through its history in regressions/corpus/, which every check replays first).', '',
           '| id | property | change | result | failing predicate, run index, minimised size / note |', '|---|---|---|---|---|']
    n = {'CAUGHT': 0, 'MISSED': 0, 'KILLED-BY-EXISTING-SUITE': 0}
    for k in sorted(final, key=lambda x: (not x.startswith('M'), x)):
        i, prop, name, res, detail = final[k]
        n[res] = n.get(res, 0) + 1
        detail = re.sub(r'\(\d+s\)\s*$', '', detail).strip()
        if res == 'MISSED':
            mp = os.path.join(ROOT, 'seeded', i, 'meta.json')
            if os.path.exists(mp):
                detail = json.load(open(mp)).get('triage_note', detail)
        if res.startswith('KILLED'):
            detail = 'not a survivor of the existing tests'
        out.append('| %s | %s | %s | %s | %s |' % (i, prop, name.strip().replace('|', '/'), res, detail.replace('|', '/')))
    out += ['', 'Totals: %s' % ', '.join('%s %d' % kv for kv in sorted(n.items())), '']
    open(os.path.join(ROOT, 'selftest', 'RESULTS.md'), 'w', encoding='utf-8').write('\n'.join(out))
    print(summary, n)


if __name__ == '__main__':
    main()
