"""Regenerates /verif/MANIFEST.json (checks table) from one place."""
import json, os
ROOT = os.path.dirname(os.path.dirname(os.path.abspath(__file__)))
PY = '/venv/bin/python -B -m sim.check'
TECH = 'deterministic seeded history simulation (one PRNG -> one replayable op history over aliasing values), '
CHECKS = {
 'C01': ('terminal-stub peer reads all 8 flag renderings + str()/format() of every touched value after every step; exhaustive bridge sweep over pairs of adjacent style states', '4 C01'),
 'C03': ('render->re-parse round trip and simplify() steps at reached states, judged by the terminal stub\'s effective styles; idempotence and fixed point', '4 C03'),
 'C04': ('per-step refinement relation for slice/index/clip/iter against the pre-observation, with closure probes (plain and styled text appended to the slice)', '4 C04'),
 'C05': ('per-step refinement relation for +, +=, join (self-operands included), join == left fold, and split/rejoin at every k of every touched value incl. display identity', '4 C05'),
 'C06': ('per-step refinement relation for apply_formatting: outside unchanged, inside gains exactly, topmost=False keeps displayed effects, topmost=True wins until the next begin point', '4 C06'),
 'C07': ('per-step refinement relation for remove_formatting/clear_formatting: inside minus selection with order kept, outside unchanged with precedence', '4 C07'),
 'C08': ('world-wide frame invariant after every step (nothing but the in-place receiver changes), arguments snapshot, in-place == not-in-place twin, copy equality', '4 C08'),
 'C09': ('failing-call injection (documented argument types, bad values), sys.monitoring step clock for termination, failure atomicity, world health invariant with WITH_ASSERTIONS=True', '4 C09'),
 'C11': ('per-step refinement relation for split/rsplit/splitlines/partition/strip/removeprefix/suffix/case/assign_str/replace/expandtabs with true offsets from validated offset-tracking splitters', '4 C11'),
 'C12': ('per-step refinement relation for ljust/rjust/center/zfill and composed format specs; closure probe; format output read by the terminal stub and compared with pad+apply on a copy', '4 C12'),
 'C13': ('lock-step twin: the same op on AnsiString(x) and AnsiStr(x) must agree exactly (settings, all renderings, format); payload == rendering for every AnsiStr in the world', '4 C13'),
 'C15': ('valid/parsable of every setting object reached, against the harness grammar, in seed-chosen first-query order; conjunction flags; ESC-sequence stripping gives base_str; verbatim settings intact', '4 C15'),
 'C16': ('differential step: format_matching/unformat_matching on the receiver vs the explicit re.finditer loop of apply/remove on a copy taken before the call', '4 C16'),
 'C17': ('find_settings/settings_at/ansi_settings_at answers against the per-character table observed before the query', '4 C17'),
}
NOTE = ('trusted base: the harness reference semantics (sim/terminal.py code table, sim/codes.py grammar, sim/models.py, sim/strref.py validated against str at '
        'every use), CPython; observation through base_str/ansi_settings_at/renderings only; sampling, not enumeration')
m = json.load(open(os.path.join(ROOT, 'MANIFEST.json')))
m['checks'] = []
for pid in sorted(CHECKS):
    what, ref = CHECKS[pid]
    m['checks'].append({
        'property_id': pid,
        'quick_cmd': '%s --property %s --tier quick' % (PY, pid),
        'thorough_cmd': '%s --property %s --tier thorough' % (PY, pid),
        'evidence_file': 'evidence/%s.json' % pid,
        'replay_cmd_template': '%s --replay {path}' % PY,
        'engine': 'sim',
        'level_claimed': {
            'category': 'exploration',
            'text': 'seeded search over operation histories on the real library: ' + what + '. Evidence, not proof: every run index is an exactly repeatable history; a violation is reported with a minimised op list that reproduces in a fresh interpreter.',
            'design_ref': 'DESIGN.md section ' + ref,
        },
        'level_note': NOTE,
        'technique': TECH + what.split(';')[0].split(':')[0][:90],
    })
m['engines'][0]['serves_properties'] = sorted(CHECKS)
m['notes'] = 'All 14 claimed properties are decided by the one simulator under sim/. quick: regression corpus + sweeps + a few thousand to tens of thousands of seeded histories; thorough: the same with hundreds of thousands to millions of histories, every 10th long (60-120 steps). VERIF_SEED shifts the whole seed range.'
json.dump(m, open(os.path.join(ROOT, 'MANIFEST.json'), 'w'), indent=1)
print('checks:', len(m['checks']))
