import sys, traceback
sys.path.insert(0,'/verif')
from sim import run
from collections import Counter
props = sys.argv[1].split(',') if len(sys.argv)>1 else ['C04','C05','C06','C07','C11','C12','C16','C17','C03','C01','C08','C09','C13','C15']
N = int(sys.argv[2]) if len(sys.argv)>2 else 300
for prop in props:
    preds=Counter(); n=0; first={}; errs=0
    for k in range(N):
        try:
            r=run.simulate(prop,0,k)
        except Exception as e:
            errs+=1
            if errs<=2:
                print(prop,'HARNESS EXC',k); traceback.print_exc()
            continue
        n+=1
        if r.violation:
            preds[r.violation.predicate]+=1
            first.setdefault(r.violation.predicate,k)
    print(prop, n, 'errs',errs, {p:(c,first[p]) for p,c in preds.items()})
