"""The display invariant: what the terminal peer shows for a rendering must be the text with,
per character, the effective style of the settings the value reports (C01).  Shared by the
C01, C03, C05 and C12 oracles.
"""
from . import terminal as T
from .codes import all_wf, eff
from .engine import require

FLAG_COMBOS = [(o, rs, re_) for o in (True, False) for rs in (False, True) for re_ in (True, False)]


def evaluable(obs) -> bool:
    """Display clauses are defined for values without ESC in the text whose settings are all
    well-formed numeric SGR parameter groups."""
    return '\x1b' not in obs.text and all_wf(obs.cells)


def expected_styles(cells):
    return [eff(c) for c in cells]


def read(rendering: str, prior=None) -> T.Screen:
    return T.Screen(prior).feed(rendering)


def check_rendering(rendering, text, styles, flags, prefix, dirty_variant=0, stats=None):
    """rendering: library output under flags=(optimize, reset_start, reset_end) (None: default
    str()/format path == (True, False, True)).  text/styles: what must be displayed."""
    o, rs, re_ = flags if flags is not None else (True, False, True)
    try:
        clean = read(rendering)
    except T.Undefined as e:
        require(False, prefix + '.wellformed_output', rendering=rendering, why=str(e), flags=[o, rs, re_])
    require(clean.text == text, prefix + '.chars', rendering=rendering, want=text, got=clean.text, flags=[o, rs, re_])
    got = clean.styles()
    for i, (g, w) in enumerate(zip(got, styles)):
        require(g == w, prefix + '.style', rendering=rendering, index=i, want=list(w), got=list(g), flags=[o, rs, re_])
    if rs:
        fe = clean.first_event
        require(fe is not None and fe[0] == 'sgr' and fe[1][0] == 0, prefix + '.reset_start_begins_with_reset',
                rendering=rendering, flags=[o, rs, re_])
        dirty = read(rendering, T.dirty_state(dirty_variant))
        dgot = dirty.styles()
        for i, (g, w) in enumerate(zip(dgot, styles)):
            require(g == w, prefix + '.reset_start_independent_of_prior', rendering=rendering, index=i,
                    want=list(w), got=list(g), flags=[o, rs, re_])
        if re_ and dirty.sgr_count:
            require(dirty.final_state() == (), prefix + '.reset_end_default_state', rendering=rendering,
                    got=list(dirty.final_state()), flags=[o, rs, re_], prior='dirty')
    if re_ and clean.sgr_count:
        require(clean.final_state() == (), prefix + '.reset_end_default_state', rendering=rendering,
                got=list(clean.final_state()), flags=[o, rs, re_], prior='default')
    if stats is not None:
        stats['renderings_checked'] = stats.get('renderings_checked', 0) + 1
        # how the optimiser bridged neighbouring style states (reach probes)
        changes = sum(1 for i in range(1, len(styles)) if styles[i] != styles[i - 1]) + (1 if styles and styles[0] else 0)
        key = ('probe:sgr_more_than_style_changes' if clean.sgr_count > changes + (1 if re_ else 0)
               else 'probe:sgr_equals_style_changes')
        stats[key] = stats.get(key, 0) + 1
        if '\x1b[0;' in rendering or '\x1b[0m' in rendering:
            stats['probe:reset_and_reemit'] = stats.get('probe:reset_and_reemit', 0) + 1


def check_value(v, obs, prefix='display', dirty_variant=0, stats=None, combos=FLAG_COMBOS, with_default=True):
    """All 8 flag combinations (+ str() and format(v, '')) of one value."""
    styles = expected_styles(obs.cells)
    if with_default:
        # str(): for an AnsiStr this is the frozen str payload, which must display like the object reports
        check_rendering(str(v), obs.text, styles, None, prefix + '.str', dirty_variant, stats)
        if obs.kind == 'A':
            check_rendering('%s' % v, obs.text, styles, None, prefix + '.str_payload', dirty_variant, stats)
            check_rendering(v.to_str(), obs.text, styles, None, prefix + '.to_str_default', dirty_variant, stats)
        check_rendering(format(v, ''), obs.text, styles, None, prefix + '.format', dirty_variant, stats)
    for (o, rs, re_) in combos:
        r = v.to_str(optimize=o, reset_start=rs, reset_end=re_)
        check_rendering(r, obs.text, styles, (o, rs, re_), prefix, dirty_variant, stats)
