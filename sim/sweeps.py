"""Directed, completely enumerated sweeps (the only exhaustive pieces).

C01 bridge sweep: short strings whose neighbouring characters carry every ordered pair of
configurations of one effect group (absent, each set value, cleared, reset-as-a-setting), for
each of the 14 stateful groups, times a bystander from another group, under all 8 flag
combinations plus str()/format().
"""
import json
import os

from . import display, lib, terminal as T
from .engine import Fail, Violation
from .obs import observe

AnsiString, AnsiStr, AnsiSetting = lib.AnsiString, lib.AnsiStr, lib.AnsiSetting

GROUP_VALUES = {
    'bold': (['1', '2'], '22'), 'italic': (['3'], '23'), 'underline': (['4', '21'], '24'), 'blink': (['5', '6'], '25'),
    'inverse': (['7'], '27'), 'hide': (['8'], '28'), 'strike': (['9'], '29'), 'font': (['11', '20'], '10'),
    'spacing': (['26'], '50'), 'fg': (['31', '38;5;200', '38;2;1;2;3', '91'], '39'),
    'bg': (['41', '48;5;17', '104'], '49'), 'box': (['51', '52'], '54'), 'overline': (['53'], '55'),
    'ulcolor': (['58;5;9', '58;2;1;2;3'], '59'),
}
BYSTANDERS = [None, ('both', '3'), ('both', '38;5;200'), ('first', '3'), ('second', '44'), ('both', '1')]


def configs(group):
    sets, clear = GROUP_VALUES[group]
    out = [()]
    out += [(s,) for s in sets]
    out.append((clear,))
    out.append(('0',))
    out.append((sets[0], clear))
    out.append((clear, sets[-1]))
    return out


def build_case(case):
    text = case['text']
    cls = AnsiStr if case.get('cls') == 'A' else AnsiString
    s = AnsiString(text)
    by = case.get('bystander')
    if by is not None and by[0] in ('both',):
        s.apply_formatting(AnsiSetting(by[1]), 0, 2)
    for pos, cfg in enumerate(case['cfgs']):
        if by is not None and ((by[0] == 'first' and pos == 0) or (by[0] == 'second' and pos == 1)):
            s.apply_formatting(AnsiSetting(by[1]), pos, pos + 1)
        for code in cfg:
            s.apply_formatting(AnsiSetting(code), pos, pos + 1)
    return cls(s) if cls is AnsiStr else s


def check_case(case):
    v = build_case(case)
    o = observe(v)
    stats = {}
    display.check_value(v, o, 'bridge', case.get('dirty', 0), stats)
    return stats


def c01_cases():
    for g in T.GROUPS:
        cf = configs(g)
        for x in cf:
            for y in cf:
                for by in BYSTANDERS:
                    if by is not None and by[1] in GROUP_VALUES[g][0]:
                        continue
                    yield {'group': g, 'text': 'ab', 'cfgs': [list(x), list(y)], 'bystander': list(by) if by else None}
                    yield {'group': g, 'text': 'abc', 'cfgs': [list(x), list(y), []], 'bystander': list(by) if by else None,
                           'dirty': 1}


EXTRAS = ['3', '9', '53', '7', '26', '8']


def stack_cases():
    """Stack sweep: every sequence of length 1-3 over {A, B, clear} of one effect group, together with 0-3
    settings of other groups that stop (or start) next to it, in three layouts on 'abc':
      stop_beside : extras on [0,1), stack on [0,3)   (extras stop while the stack stays active)
      seam        : extras on [0,1), stack on [1,3)   (stack starts where the extras stop)
      stack_stops : stack on [0,2), extras on [0,3)   (stack stops while the extras stay)"""
    import itertools
    for g in T.GROUPS:
        sets, clear = GROUP_VALUES[g]
        a = sets[0]
        b = sets[1] if len(sets) > 1 else clear
        alphabet = list(dict.fromkeys([a, b, clear]))
        extras = [e for e in EXTRAS if e not in sets and e != clear][:3]
        for n in (1, 2, 3):
            for stack in itertools.product(alphabet, repeat=n):
                for k in range(0, len(extras) + 1):
                    for layout in ('stop_beside', 'seam', 'stack_stops'):
                        yield {'kind': 'stack', 'group': g, 'stack': list(stack), 'extras': extras[:k], 'layout': layout}
        # every other set code of the group (all colours, fonts ...) alone, cleared, and against the first value
        for c in sorted(str(x) for x, gg in T.SET.items() if gg == g):
            if c in (a, b):
                continue
            for stack in ([c], [c, clear], [a, c], [c, a]):
                for k in (0, 1):
                    for layout in ('stop_beside', 'seam', 'stack_stops'):
                        yield {'kind': 'stack', 'group': g, 'stack': list(stack), 'extras': extras[:k], 'layout': layout}


def wide_cases():
    """Many effect groups set, changed or cleared at ONE change point (the optimiser has to bridge all of them in one
    sequence): the first k groups' values on 'a', other values / clear codes / nothing on 'b'."""
    gs = list(T.GROUPS)
    for k in (5, 6, 7, 8, 10, 12, 14):
        first = [GROUP_VALUES[g][0][0] for g in gs[:k]]
        other = [GROUP_VALUES[g][0][-1] for g in gs[:k]]
        clear = [GROUP_VALUES[g][1] for g in gs[:k]]
        rot = first[k // 2:] + first[:k // 2]
        for name, second in (('changed', other), ('cleared', clear), ('ended', []), ('same', first), ('reordered', rot),
                             ('stacked_twice', first + other)):
            for lay in ('adjacent', 'nested', 'gap'):
                yield {'kind': 'wide', 'k': k, 'first': first, 'second': second, 'how': name, 'layout': lay}


def build_wide_case(case):
    s = AnsiString('abc')
    a_rng, b_rng = {'adjacent': ((0, 1), (1, 2)), 'nested': ((0, 3), (1, 2)), 'gap': ((0, 1), (2, 3))}[case['layout']]
    for c in case['first']:
        s.apply_formatting(AnsiSetting(c), *a_rng)
    for c in case['second']:
        s.apply_formatting(AnsiSetting(c), *b_rng)
    return s


def check_wide_case(case, prop):
    check_stack_case(case, prop, build=build_wide_case)


def build_stack_case(case):
    s = AnsiString('abc')
    lay = case['layout']
    ex_rng = (0, 3) if lay == 'stack_stops' else (0, 1)
    st_rng = {'stop_beside': (0, 3), 'seam': (1, 3), 'stack_stops': (0, 2)}[lay]
    for e in case['extras']:
        s.apply_formatting(AnsiSetting(e), *ex_rng)
    for c in case['stack']:
        s.apply_formatting(AnsiSetting(c), *st_rng)
    return s


def check_stack_case(case, prop, build=None):
    v = (build or build_stack_case)(case)
    o = observe(v)
    if prop == 'C01':
        display.check_value(v, o, 'stack_sweep', 1, {})
        display.check_value(AnsiStr(v), observe(AnsiStr(v)), 'stack_sweep.ansistr', 0, {})
    else:
        from . import oracles
        rt = AnsiString(str(v))
        oracles.c03_check_roundtrip(o, observe(rt))
        c = v.copy()
        c.simplify()
        oracles.c03_check_simplify(o, observe(c), c)


def member_cases():
    """C15: 'settings given as AnsiFormat members, their names ... are always valid and parsable' - every member
    of the enumeration, as the member, by its lower-case name and by its name as written."""
    for m in lib.AnsiFormat:
        for form in ('member', 'lower', 'name'):
            yield {'kind': 'member', 'member': m.name, 'form': form}


def check_member_case(case):
    from .engine import require
    m = lib.AnsiFormat[case['member']]
    arg = m if case['form'] == 'member' else (m.name.lower() if case['form'] == 'lower' else m.name)
    try:
        for cls in (AnsiString, AnsiStr):
            v = cls('ab', arg)
            sets = v.ansi_settings_at(0)
            require(len(sets) >= 1, 'member.sets_something', member=case['member'], form=case['form'])
            for s in sets:
                require(s.valid and s.parsable, 'member.setting_valid_and_parsable', member=case['member'], form=case['form'],
                        setting=str(s), valid=s.valid, parsable=s.parsable)
            require(v.is_formatting_valid() and v.is_formatting_parsable(), 'member.formatting_valid_and_parsable',
                    member=case['member'], form=case['form'])
    except Fail:
        raise
    except Exception as e:
        raise Fail('member.accepted', member=case['member'], form=case['form'], exc='%s: %s' % (type(e).__name__, e))


def replay(doc):
    if doc['case'].get('kind') == 'member':
        try:
            check_member_case(doc['case'])
        except Fail as f:
            return Violation(doc['property'], f.predicate, 0, f.detail)
        return None
    if doc['case'].get('kind') in ('stack', 'wide'):
        try:
            if doc['case']['kind'] == 'wide':
                check_wide_case(doc['case'], doc['property'])
            else:
                check_stack_case(doc['case'], doc['property'])
        except Fail as f:
            return Violation(doc['property'], f.predicate, 0, f.detail)
        return None
    return _replay_bridge(doc)


def _replay_bridge(doc):
    try:
        check_case(doc['case'])
    except Fail as f:
        return Violation(doc['property'], f.predicate, 0, f.detail)
    return None


def _write_violation(prop, case, v, out_dir, n, info):
    path = os.path.join(out_dir, '%s-sweep-%d.json' % (prop, n))
    os.makedirs(out_dir, exist_ok=True)
    with open(path, 'w') as fh:
        json.dump({'kind': 'sweep', 'property': prop, 'case': case, 'violation': v.to_json(),
                   'library_digest': lib.library_digest()}, fh, indent=1, default=repr)
    info['violation'] = v.to_json()
    info['replay'] = path
    info['cases'] = n
    return info


def run_for(prop, tier, out_dir):
    info = {'cases': 0, 'exhaustive_sweep': False, 'probes': {}}
    if prop == 'C15':
        n = 0
        for case in member_cases():
            n += 1
            try:
                check_member_case(case)
            except Fail as f:
                return _write_violation(prop, case, Violation(prop, f.predicate, 0, f.detail), out_dir, n, info)
        info['cases'] = n
        info['member_sweep_cases'] = n
        info['exhaustive_sweep'] = True
        info['probes'] = {'ansiformat_members_x_3_spellings': n}
        return info
    if prop not in ('C01', 'C03'):
        return info
    lib.AnsiString.WITH_ASSERTIONS = True
    probes = {}
    n = 0
    for case in stack_cases():
        n += 1
        try:
            check_stack_case(case, prop)
        except Fail as f:
            return _write_violation(prop, case, Violation(prop, f.predicate, 0, f.detail), out_dir, n, info)
        key = 'stack:%s:%d_extras' % (case['layout'], len(case['extras']))
        probes[key] = probes.get(key, 0) + 1
    info['stack_sweep_cases'] = n
    for case in wide_cases():
        n += 1
        try:
            check_wide_case(case, prop)
        except Fail as f:
            return _write_violation(prop, case, Violation(prop, f.predicate, 0, f.detail), out_dir, n, info)
        key = 'wide:%s:%d_groups' % (case['how'], case['k'])
        probes[key] = probes.get(key, 0) + 1
    info['wide_sweep_cases'] = n - info['stack_sweep_cases']
    if prop != 'C01':
        lib.AnsiString.WITH_ASSERTIONS = False
        info['cases'] = n
        info['exhaustive_sweep'] = True
        info['probes'] = probes
        return info
    for case in c01_cases():
        n += 1
        try:
            check_case(case)
        except Fail as f:
            v = Violation(prop, f.predicate, 0, f.detail)
            path = os.path.join(out_dir, 'C01-sweep-%d.json' % n)
            os.makedirs(out_dir, exist_ok=True)
            with open(path, 'w') as fh:
                json.dump({'kind': 'sweep', 'property': prop, 'case': case, 'violation': v.to_json(),
                           'library_digest': lib.library_digest()}, fh, indent=1, default=repr)
            info['violation'] = v.to_json()
            info['replay'] = path
            info['cases'] = n
            return info
        x, y = case['cfgs'][0], case['cfgs'][1]
        kind = ('same' if x == y else 'set' if not x else 'cleared' if (y and y[-1] == GROUP_VALUES[case['group']][1]) else
                'reset' if y == ['0'] else 'removed' if not y else 'changed')
        key = '%s:%s' % (case['group'], kind)
        probes[key] = probes.get(key, 0) + 1
    lib.AnsiString.WITH_ASSERTIONS = False
    info['cases'] = n
    info['renderings'] = n * 10
    info['exhaustive_sweep'] = True
    info['probes'] = probes
    return info
