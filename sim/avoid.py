"""Trigger predicates of OPEN known findings (known_findings.txt).  A predicate is a named,
side-effect-free function of (op, world) over observations only.  The generator redraws a step
that matches one, so whatever the search reports is by construction not a listed finding."""
import os

from . import atoms
from .models import norm_range

KNOWN_FINDINGS = os.path.join(os.path.dirname(os.path.dirname(os.path.abspath(__file__))), 'known_findings.txt')


def parse_known_findings(path=KNOWN_FINDINGS):
    """Lines:  open:  property=C07 id=F012 witness=regressions/F012.json avoid=name :: text
               fixed: property=C04 <commit> id=F001 witness=regressions/F001.json :: text"""
    out = []
    if not os.path.exists(path):
        return out
    with open(path, encoding='utf-8') as f:
        for line in f:
            line = line.strip()
            if not line or line.startswith('#'):
                continue
            status, _, rest = line.partition(':')
            status = status.strip()
            head, _, text = rest.partition('::')
            fields = {}
            for tok in head.split():
                if '=' in tok:
                    a, b = tok.split('=', 1)
                    fields[a] = b
                elif status == 'fixed' and 'commit' not in fields:
                    fields['commit'] = tok
            fields['status'] = status
            fields['text'] = text.strip()
            out.append(fields)
    return out


_active = None


def active():
    global _active
    if _active is None:
        preds = []
        for f in parse_known_findings():
            if f['status'] == 'open' and f.get('avoid'):
                for name in f['avoid'].split(','):
                    preds.append(globals()[name])
        _active = preds
    return _active
