"""Seeded workload generator: decides every operation, operand, argument, failing call and knob.

All randomness comes from the one random.Random handed in; nothing else is consulted.  The
generator looks at the *observations* of the world (public API) to aim its arguments at
boundaries: change points, ends, seams.
"""
from . import atoms, badops, ops
from .obs import S, A, T

TEXT_POOLS = [
    'ab', 'abc', 'ab-', 'ab ', 'a-b ', 'xab', 'aAb', 'ab\t', 'ab\n', 'a b\n', 'ab:', 'ab+', 'a0-5', 'aß', 'aǅb',
    'a\U0001d4b3b', 'é-a', 'ab\r\n', 'ab-\t ', 'Ab c',
    'a\x0bb\x0c', 'ab\x85\u2028', 'a\x1cb\r', 'a\u0130b', '\u0149ab', 'ab \xa0', 'aB\u00df\n',
    # case-equivalence classes beyond lower()/upper(): long s, dotless/dotted i, micro/mu, sigmas, Kelvin sign
    's\u017fS-', 'i\u0131I\u0130', '\u00b5\u03bc\u039ca', '\u03c3\u03c2\u03a3 ', 'kK\u212a-', '\ufb01fi\u1e9e\u00df',
]

ALL_KINDS = ['new', 'conv', 'apply', 'remove', 'clear', 'slice', 'index', 'clip', 'iter', 'add', 'iadd', 'join', 'pad',
             'fmt', 'render', 'case', 'assign', 'strip', 'rmfix', 'split', 'splitlines', 'partition', 'replace',
             'expandtabs', 'fmatch', 'applymatch', 'find', 'query', 'simplify', 'roundtrip', 'setansi', 'itnext']

BASE_WEIGHT = {
    'new': 6, 'conv': 4, 'apply': 10, 'remove': 6, 'clear': 1, 'slice': 7, 'index': 2, 'clip': 3, 'iter': 1, 'add': 6,
    'iadd': 5, 'join': 3, 'pad': 5, 'fmt': 3, 'render': 1, 'case': 2, 'assign': 2, 'strip': 3, 'rmfix': 2, 'split': 3,
    'splitlines': 1, 'partition': 2, 'replace': 4, 'expandtabs': 1, 'fmatch': 3, 'find': 2, 'query': 2, 'simplify': 2,
    'roundtrip': 1, 'setansi': 1, 'applymatch': 1, 'itnext': 1,
}

GROUP_SHARING_SETS = [
    ['n:bold', 'n:faint', 'n:no_bold_faint', 'f:bold', 'i:1', 'v:1', 'a:1', 'i:22', 's:01'],
    ['n:red', 'n:blue', 'n:fg_default', 'f:red', 'i:31', 'i:34', 'n:orange', 'h:rgb(1,2,3)', 'l:38,5,200', 'v:31', 'a:34',
     'i:39', 'r:rgb(1,2,3)'],
    ['n:bg_red', 'n:bg_blue', 'n:bg_default', 'i:41', 'i:49', 'h:bg_rgb(0x010203)', 'n:bg_orange', 's:44', 'l:48,2,1,2,3'],
    ['n:underline', 'n:double_underline', 'n:no_underline', 'i:4', 'i:21', 'i:24', 'n:ul_red', 'h:ul_rgb(1,2,3)',
     'f:dul_orange', 'n:default_underline_color', 'r:ul_color256(9)'],
    ['n:italic', 'n:no_italic', 'i:3', 'n:crossed_out', 'n:no_crossed_out', 'i:9'],
    ['n:alt_font_1', 'n:gothic_font', 'n:default_font', 'i:10', 'i:11'],
    ['n:framed', 'n:encircled', 'n:no_framed_encircled', 'n:overlined', 'n:no_overlined', 'i:51', 'i:54', 'i:53', 'i:55'],
    ['n:slow_blink', 'n:rapid_blink', 'n:no_blink', 'n:swap_bg_fg', 'n:no_swap_bg_fg', 'n:hide', 'n:no_hide', 'i:7'],
    ['n:proportional_spacing', 'n:no_proportional_spacing', 'i:26', 'i:50'],
    ['l:1,31', 's:1;31', 's:bold;red', 'v:1;31', 'a:4;34', 'a:38;5;200;1', 'l:58,5,9,3'],
]


class Gen:
    def __init__(self, rng, oracle, long_run=False, scenario=None):
        self.rng = rng
        self.oracle = oracle
        r = rng
        usable = set(atoms.usable_ids())
        self.knobs = {
            'pool': r.choice([3, 4, 4, 5, 6]),
            'wa': r.random() < 0.7,
            'dirty': r.randrange(2),
            'flag_order': r.randrange(3),
            'reuse': r.random() < 0.5,     # the same AnsiSetting argument object is handed to several calls
        }
        self.steps = r.randint(60, 120) if long_run else r.randint(4, 25)
        self.alphabet = r.choice(TEXT_POOLS)
        self.p_astr = r.choice([0.0, 0.15, 0.3, 0.5])
        self.p_self = r.choice([0.0, 0.1, 0.3])
        self.p_bad = r.choice([0.0, 0.05, 0.15, 0.25]) if oracle.prop == 'C09' else r.choice([0.0, 0.0, 0.03, 0.08])
        self.p_inplace = r.choice([0.3, 0.6, 0.9])
        self.max_len = r.choice([4, 6, 8, 12])
        # a few runs work on texts longer than 256 characters (indices beyond the small-int range)
        self.long_text = r.random() < 0.03
        # settings atoms for this run: a few that share effect groups, plus optional exotic classes
        sets = r.sample(GROUP_SHARING_SETS, r.choice([1, 2, 2, 3]))
        pick = []
        for s in sets:
            s = [x for x in s if x in usable]
            pick.extend(r.sample(s, min(len(s), r.choice([2, 3, 4]))))
        allow = {'plain', 'pair'}
        if r.random() < 0.3:
            allow.add('multi')
            pick.extend(r.sample([x for x in atoms.BY_CLASS['multi'] if x in usable], 1))
        if r.random() < 0.25:
            allow.add('reset')
            pick.extend(r.sample([x for x in atoms.BY_CLASS['reset'] if x in usable], 1))
        if r.random() < 0.2:
            pick.extend(r.sample([x for x in atoms.BY_CLASS['unknown'] if x in usable], 1))
        if r.random() < 0.25:
            pick.extend(r.sample([x for x in atoms.BY_CLASS['odd'] if x in usable], r.choice([1, 2])))
        if r.random() < 0.15:
            pick.extend(r.sample([x for x in atoms.BY_CLASS['invalid'] if x in usable], 1))
        if r.random() < 0.5:
            # any atom of the catalogue (spellings that are in no group-sharing set would otherwise never be drawn)
            rest = [x for x in sorted(usable) if atoms.CATALOGUE[x].cls in ('plain', 'pair')]
            pick = r.sample(rest, r.choice([1, 2])) + pick
        pick = [p for p in dict.fromkeys(pick) if atoms.CATALOGUE[p].cls in allow or atoms.CATALOGUE[p].cls not in
                ('multi', 'reset')]
        if len([p for p in pick if atoms.CATALOGUE[p].cls in ('plain', 'pair')]) < 2:
            pick = ['n:bold', 'n:red'] + pick
        self.atoms = pick[:8] if len(pick) > 8 else pick
        self.string_atoms = [i for i in self.atoms if atoms.CATALOGUE[i].kind in ('name', 'rgbstr', 'intstr')]
        # op weights
        w = dict(BASE_WEIGHT)
        for k in oracle.own_kinds:
            if k in w:
                w[k] *= 5
        if oracle.prop == 'C03':
            w['simplify'] *= 2
            w['roundtrip'] *= 4
        if oracle.prop == 'C17':
            w['query'] = 4
        if r.random() < 0.5:
            # swarm: knock out a random third of the non-owned kinds
            for k in r.sample(sorted(w), len(w) // 3):
                if k not in oracle.own_kinds and k not in ('new', 'apply'):
                    w[k] = 0
        self.kinds = sorted(w)
        self.weights = [w[k] for k in self.kinds]
        self.scenario = scenario
        self.n = 0

    # ------------------------------------------------------------------ helpers
    def text(self, lo=0, hi=None):
        r = self.rng
        hi = self.max_len if hi is None else hi
        n = r.randint(lo, hi)
        if r.random() < 0.05:
            n = min(64, hi * 4)
        return ''.join(r.choice(self.alphabet) for _ in range(n))

    def settings(self, allow_empty=False, max_items=3):
        r = self.rng
        if allow_empty and r.random() < 0.05:
            return []
        for _ in range(8):
            k = r.choice([1, 1, 1, 2, 2, 3][:max(1, max_items * 2)])
            items = [r.choice(self.atoms) for _ in range(k)]
            if r.random() < 0.06:
                # an element that holds no setting at all ('' / ';' / an empty list)
                items[r.randrange(k)] = r.choice(['e:empty', 'e:semi', 'e:semis', []])
            shape = r.random()
            if k == 1 and isinstance(items[0], str) and shape < 0.2:
                spec = items[0]         # the bare setting itself (int, name, AnsiFormat member, AnsiSetting ...), no list
            elif shape < 0.55:
                spec = items
            elif shape < 0.7:
                spec = {'tuple': items}
            elif shape < 0.85 and len(items) >= 2:
                spec = [items[0], items[1:]]
            elif len(items) >= 2:
                spec = [[items[0]], {'tuple': [items[1:]]}]
            else:
                spec = [items]
            if not atoms.mergeable_adjacent(spec):
                return spec
        return [self.atoms[0]]

    def selection(self, obs):
        """Settings to remove / look for: present on the receiver (by code) or not."""
        r = self.rng
        present = []
        for cell in obs.cells:
            for c in cell:
                if c not in present:
                    present.append(c)
        if r.random() < 0.07:
            return r.choice([['e:empty'], ['e:semi'], [[]], 'e:empty', ['e:empty', []]])
        cand = [i for i in self.atoms if any(c in present for c in atoms.CATALOGUE[i].codes)]
        if cand and r.random() < 0.75:
            k = 1 if r.random() < 0.7 else 2
            if k == 1 and r.random() < 0.2:
                return r.choice(cand)       # bare, not wrapped in a list
            return [r.choice(cand) for _ in range(k)]
        return [r.choice(self.atoms)]

    def slot(self):
        return self.rng.randrange(self.knobs['pool'])

    def slots_of(self, world, kinds, nonempty=False):
        out = []
        for i, o in enumerate(world.obs):
            if o.kind in kinds and (not nonempty or o.text):
                out.append(i)
        return out

    MAXLEN = 40
    HARD_MAX = 400

    def recv_slot(self, world, want_formatted=True, maxlen=None):
        r = self.rng
        cands = self.slots_of(world, (S, A), nonempty=True)
        if maxlen is None:
            # values made huge by a padding to width 1000/10000 (C09) are not operated on any further: an
            # operation that is quadratic in the number of matches would take minutes on them
            maxlen = self.HARD_MAX
        if maxlen is not None:
            small = [i for i in cands if len(world.obs[i].text) <= maxlen]
            if not small and cands and min(len(world.obs[i].text) for i in cands) > self.HARD_MAX:
                # only huge values are non-empty: take an empty one rather than operate on a huge one
                small = [i for i in self.slots_of(world, (S, A)) if len(world.obs[i].text) <= self.HARD_MAX]
            cands = small or [min(cands, key=lambda i: len(world.obs[i].text))] if cands else cands
        if want_formatted:
            fm = [i for i in cands if any(world.obs[i].cells)]
            if fm and r.random() < 0.8:
                cands = fm
        if not cands or r.random() < 0.04:
            cands = self.slots_of(world, (S, A)) or list(range(len(world.obs)))
            cands = [i for i in cands if len(world.obs[i].text) <= self.HARD_MAX] or cands
        return r.choice(cands)

    def index(self, obs, allow_out=True):
        """Boundary-directed index (may be None)."""
        r = self.rng
        n = len(obs.text)
        cps = obs.change_points()
        c = []
        for cp in cps:
            c.extend([cp - 1, cp, cp + 1])
        c.extend([0, n, n - 1, 1])
        if n > 256:
            c.extend([257, 258, n - 2, 256, r.randint(257, n)])
        x = r.random()
        if x < 0.55 and c:
            v = r.choice(c)
        elif x < 0.75:
            v = r.randint(0, max(n, 1))
        elif x < 0.85:
            return None
        elif x < 0.95:
            v = -r.randint(1, n + 2)
        else:
            far = [n + 1, n + 5, -n - 1, 10 ** 6, -10 ** 6]
            if self.oracle.prop == 'C09':
                far = [n + 1, n + 5, -n - 1, 10 ** 30, -10 ** 30]   # beyond the machine word as well
            v = r.choice(far) if allow_out else n
        if not allow_out:
            v = max(-n, min(n, v))
        elif r.random() < 0.3 and v is not None and 0 < v <= n:
            v = v - n if v - n != 0 else v   # same position spelled negatively
        return v

    def rng_pair(self, obs, allow_out=True):
        a = self.index(obs, allow_out)
        b = self.index(obs, allow_out)
        r = self.rng
        if a is not None and b is not None and r.random() < 0.7:
            n = len(obs.text)
            na, nb, _ = slice(a, b).indices(n)
            if nb < na:
                a, b = b, a
        return a, b

    ESC_OPERANDS = ['x\x1b[1my', 'b\x1b[3', '1mc', '\x1b[31m', 'a\x1b[0mb', '\x1b[1;31mzz\x1b[m', '\x1b[4mu', 'm\x1b[', '[1mq',
                    '\x1b[38;5;200mp\x1b[39m', '\x1b', 'w\x1b[2Jv', '\x1b[mr']

    def operand(self, world, recv_slot=None, allow_text=True, maxlen=None, esc=False):
        r = self.rng
        maxlen = self.MAXLEN if maxlen is None else maxlen
        if esc and r.random() < 0.06:
            # a plain str that carries (pieces of) escape sequences: each operand is parsed on its own
            return {'text': r.choice(self.ESC_OPERANDS)}
        if recv_slot is not None and r.random() < self.p_self and len(world.obs[recv_slot].text) <= maxlen:
            return {'slot': recv_slot}
        if allow_text and r.random() < 0.3:
            return {'text': self.text(0, 4)}
        cands = [i for i in self.slots_of(world, (S, A, T)) if len(world.obs[i].text) <= maxlen]
        if not cands:
            return {'text': self.text(0, 4)}
        fm = [i for i in cands if any(world.obs[i].cells)]
        if fm and r.random() < 0.7:
            cands = fm
        return {'slot': r.choice(cands)}

    def pattern(self, obs):
        r = self.rng
        t = obs.text
        x = r.random()
        if t and len(t) <= 8 and r.random() < 0.06:
            return t      # the whole text as pattern / separator / prefix
        if t and x < 0.6:
            i = r.randrange(len(t))
            return t[i:i + r.choice([1, 1, 2, 2, 3])]
        if x < 0.85:
            return ''.join(r.choice(self.alphabet) for _ in range(r.choice([1, 2])))
        return r.choice(['zz', 'ab', 'aa', '-', ' ', '--', 'b'])

    SETTING_ALPHABET = ['0', '1', '2', '3', '4', '5', '8', '9', ';', ';', ';', ':', '<', '=', '>', '?', '@', 'm', '~', 'A', '`', '[',
                        '_', '_', 'e', 'x', '^', '{', '|', '}', '\\', ']',
                        ' ', '/', '\x7f', '38', '48', '58', '255', '256', '38;5', '38;2', '58;5;9', '48;2;1;2', '0', '00', '01', '22']

    ALL_PRINTABLE = [chr(c) for c in range(0x20, 0x7F)] + ['\x7f', '\u00e9', '\u0663', '\t']

    def setting_text(self):
        r = self.rng
        n = r.choice([1, 1, 2, 2, 3, 4, 5, 6])
        if r.random() < 0.25:
            # a well-formed group with one byte of the whole printable range spliced in
            base = r.choice(['1', '31', '38;5;10', '48;2;1;2;3', '58;5;9', '22', '4;34', '0', '38;5;1', '48;2;10;20;30'])
            k = r.randrange(len(base) + 1)
            return base[:k] + r.choice(self.ALL_PRINTABLE) + base[k:]
        return ''.join(r.choice(self.SETTING_ALPHABET) for _ in range(n))

    def ip(self):
        return self.rng.random() < self.p_inplace

    # ------------------------------------------------------------------ op generators
    def next_op(self, world):
        r = self.rng
        self.n += 1
        if self.scenario:
            op = self.scenario.pop(0)
            return op
        if self.n <= 2 or (not self.slots_of(world, (S, A), nonempty=True)):
            return self.g_new(world)
        if r.random() < self.p_bad:
            return self.g_bad(world)
        if world.iters and r.random() < 0.2:
            # a consumer is in the middle of an iteration: let it advance between the other operations (and let
            # the next operation prefer changing the iterated value in place)
            op = self.g_itnext(world)
            self.last_derivation = (op['r'], op['r'])
            return op
        follow = getattr(self, 'last_derivation', None)
        self.last_derivation = None
        if follow is not None and r.random() < 0.25:
            # derive-then-mutate: right after a derivation, change the source or the result in place
            slot = r.choice(follow)
            if world.obs[slot % len(world.obs)].kind == S and len(world.obs[slot % len(world.obs)].text) <= self.HARD_MAX:
                k = r.choice(['apply', 'apply', 'remove', 'iadd', 'clear', 'pad', 'clip', 'fmatch', 'assign'])
                op = getattr(self, 'g_' + k)(world)
                if op['op'] == k and not (k == 'pad' and op.get('w', 0) > 100):
                    op['r'] = slot
                    if 'ip' in op:
                        op['ip'] = True
                    if 'd' in op:
                        op['d'] = slot
                    return op
        k = r.choices(self.kinds, self.weights)[0]
        op = getattr(self, 'g_' + k)(world)
        if op['op'] in ('slice', 'clip', 'split', 'splitlines', 'partition', 'conv', 'add', 'join', 'replace', 'strip',
                        'rmfix', 'iter', 'case', 'pad', 'apply', 'remove') and not op.get('ip') and op.get('d') is not None \
                and op.get('r') is not None:
            self.last_derivation = (op['r'], op['d'])
        if op['op'] in ('apply', 'remove', 'pad', 'replace', 'split', 'find', 'splitlines', 'expandtabs') and r.random() < 0.2:
            op['kw'] = r.choice([1, 2, 3])   # keyword / defaulted argument forms of the same call
        if op['op'] == 'pad' and r.random() < 0.15:
            op['default_fill'] = True
            op['fill'] = ' ' if op['how'] != 'zfill' else op['fill']
        if self.oracle.prop == 'C15' and r.random() < 0.5:
            op['probe_settings'] = [self.setting_text() for _ in range(r.choice([1, 2, 3]))]
        if self.oracle.prop == 'C13' and r.random() < 0.5:
            # a format spec under which the twin results are compared as well
            op['twin_spec'] = ops.compose_spec(self.spec(r.randint(0, 8)))
        return op

    def g_new(self, world):
        r = self.rng
        txt = self.text(0 if r.random() < 0.1 else 1)
        if self.long_text and r.random() < 0.5:
            unit = self.text(2, 6) or 'ab'
            txt = (unit * (300 // len(unit) + 1))[:r.randint(258, 300)]
        st = self.settings() if r.random() < 0.7 else None
        op = {'op': 'new', 'cls': A if r.random() < self.p_astr else S, 'text': txt, 'st': st, 'd': self.slot()}
        if st is not None and not isinstance(st, str) and r.random() < 0.5:
            op['star'] = True
        if r.random() < 0.06:
            # ANSI-coded input as a value source (parsing itself is C02, not claimed)
            op['text'] = '\x1b[%sm%s\x1b[%sm%s' % (r.choice(['1', '31', '1;31', '38;5;200', '4;34']), self.text(1, 4),
                                                    r.choice(['0', '', '22', '39', '32']), self.text(0, 3))
            x = r.random()
            if x < 0.15:
                # sequences that are not SGR stay in the text; unterminated ones too
                op['text'] = self.text(0, 3) + r.choice(['\x1b[2J', '\x1b[10A', '\x1b[', '\x1b[1;3', '\x1b[1;31', '\x1b', '\x1b[ 1']) + \
                    r.choice(['', self.text(0, 3), '1;2', ' '])
            elif x < 0.25:
                op['text'] += r.choice(['\x1b[', '\x1b[4', '\x1b[2K'])
            op['st'] = None
            op.pop('star', None)
        return op

    def g_conv(self, world):
        r = self.rng
        s = self.recv_slot(world)
        how = 'copy' if (world.obs[s].kind == S and r.random() < 0.3) else 'ctor'
        op = {'op': 'conv', 'r': s, 'how': how, 'cls': A if r.random() < max(self.p_astr, 0.3) else S, 'd': self.slot()}
        op['st'] = self.settings() if (how == 'ctor' and r.random() < 0.35) else None
        if op['st'] is not None and not isinstance(op['st'], str) and r.random() < 0.5:
            op['star'] = True
        return op

    def g_apply(self, world):
        r = self.rng
        s = self.recv_slot(world, want_formatted=r.random() < 0.6)
        a, b = self.rng_pair(world.obs[s])
        if a is None:
            a = 0 if r.random() < 0.8 else None
        return {'op': 'apply', 'r': s, 'd': self.slot(), 'ip': self.ip(), 'st': self.settings(allow_empty=True),
                'a': a if (a is not None or r.random() < 0.3) else 0, 'b': b, 'top': r.random() < 0.6}

    def g_remove(self, world):
        r = self.rng
        s = self.recv_slot(world)
        a, b = self.rng_pair(world.obs[s])
        st = None if r.random() < 0.25 else self.selection(world.obs[s])
        return {'op': 'remove', 'r': s, 'd': self.slot(), 'ip': self.ip(), 'st': st,
                'a': a if (a is not None or r.random() < 0.3) else 0, 'b': b}

    def g_clear(self, world):
        return {'op': 'clear', 'r': self.recv_slot(world), 'd': self.slot(), 'ip': self.ip()}

    def g_slice(self, world):
        s = self.recv_slot(world)
        a, b = self.rng_pair(world.obs[s])
        op = {'op': 'slice', 'r': s, 'a': a, 'b': b, 'd': self.slot()}
        if self.rng.random() < 0.1:
            op['step1'] = True
        return op

    def g_index(self, world):
        r = self.rng
        s = self.recv_slot(world)
        n = len(world.obs[s].text)
        if n == 0:
            return self.g_slice(world)
        i = self.index(world.obs[s], allow_out=False)
        if i is None or i >= n or i < -n:
            i = r.randrange(-n, n)
        return {'op': 'index', 'r': s, 'i': i, 'd': self.slot()}

    def g_clip(self, world):
        s = self.recv_slot(world)
        a, b = self.rng_pair(world.obs[s])
        op = {'op': 'clip', 'r': s, 'a': a, 'b': b, 'd': self.slot(), 'ip': self.ip()}
        if self.rng.random() < 0.2:
            op['pos'] = True
        return op

    def g_iter(self, world):
        op = {'op': 'iter', 'r': self.recv_slot(world), 'd': self.slot(), 'pick': self.rng.randrange(8)}
        if self.rng.random() < 0.4:
            op['mutate'] = self.rng.choice([1, 2, 3])
        return op

    def g_itnext(self, world):
        # advance (or open) the iterator that stays open on a value; prefer one that is already open
        n = len(world.vals)
        open_slots = [i for i in range(n) if id(world.vals[i]) in world.iters and world.iters[id(world.vals[i])][0] is world.vals[i]]
        if not open_slots:
            world.iters.clear()      # their sources have left the pool
        if open_slots and self.rng.random() < 0.8:
            s = self.rng.choice(open_slots)
        else:
            s = self.recv_slot(world)
        return {'op': 'itnext', 'r': s, 'd': self.slot()}

    def g_add(self, world):
        s = self.recv_slot(world, maxlen=self.MAXLEN)
        return {'op': 'add', 'r': s, 'o': self.operand(world, s, esc=True), 'd': self.slot()}

    def g_iadd(self, world):
        s = self.recv_slot(world, maxlen=self.MAXLEN)
        return {'op': 'iadd', 'r': s, 'o': self.operand(world, s, esc=True), 'd': self.slot(), 'ip': self.ip()}

    def g_join(self, world):
        r = self.rng
        k = r.choice([0, 1, 2, 2, 3, 3, 4])
        xs = [self.operand(world, None, maxlen=24, esc=True) for _ in range(k)]
        if k >= 2 and r.random() < self.p_self + 0.1:
            xs[r.randrange(k)] = xs[r.randrange(k)]
        return {'op': 'join', 'xs': xs, 'cls': A if r.random() < self.p_astr else S, 'd': self.slot()}

    def width(self, n):
        r = self.rng
        w = r.choice([0, n - 1, n, n + 1, n + 2, n + 3, n + 4, n + 7, 2 * n + 1, r.randint(0, 20), 40, -2])
        if self.oracle.prop == 'C09' and r.random() < 0.03:
            w = r.choice([1000, 10 ** 4])
        return w

    def fill(self):
        return self.rng.choice([' ', ' ', '*', ':', '+', '-', '0', '5', '<', '^', '\t', 'é', '\U0001d4b3', 'x', 'Z', '\n', '>'])

    def g_pad(self, world):
        r = self.rng
        s = self.recv_slot(world, maxlen=self.MAXLEN)
        n = len(world.obs[s].text)
        how = r.choice(['ljust', 'rjust', 'center', 'center', 'zfill'])
        op = {'op': 'pad', 'r': s, 'd': self.slot(), 'ip': self.ip(), 'how': how, 'w': self.width(n),
              'fill': self.fill(), 'ext': r.random() < 0.6}
        if op['w'] > 100:
            # huge results are produced (termination, consistency) but not kept in the world
            op['ip'] = False
            op['d'] = None
        return op

    def spec(self, n):
        r = self.rng
        sp = {}
        x = r.random()
        if x < 0.12:
            sp = {}
        elif x < 0.3:
            sp = {'width': max(1, self.width(n))}
        else:
            sp = {'align': r.choice('<>^'), 'width': max(0, self.width(n)) if r.random() < 0.9 else None}
            if r.random() < 0.7:
                sp['fill'] = r.choice([' ', '*', ':', '+', '-', '0', '5', 'é', '<', '>', '^', 'x', 'Z', '\n', '.'])
                if r.random() < 0.5 or sp['fill'] in '+-':
                    sp['flag'] = r.choice('+-')      # a lone '+'/'-' before the alignment could be read as the flag
            if sp.get('width') is None:
                sp.pop('width')
        verb = [i for i in self.atoms if atoms.CATALOGUE[i].kind == 'verb' and ':' not in atoms.CATALOGUE[i].arg]
        if verb and r.random() < 0.15 and any(key in sp for key in ('fill', 'align', 'width')):
            sp['ansi'] = [r.choice(verb)]     # a verbatim "[..." directive is only valid as the sole directive
        elif self.string_atoms and r.random() < 0.6:
            k = r.choice([1, 1, 2])
            ids = [r.choice(self.string_atoms) for _ in range(k)]
            # a spec without string part whose ansi part starts with a digit/align/sign is ambiguous
            first = atoms.CATALOGUE[ids[0]].arg
            if not (not any(key in sp for key in ('fill', 'align', 'width')) and not first[0].isalpha()):
                sp['ansi'] = ids
        return sp

    def g_fmt(self, world):
        r = self.rng
        s = self.recv_slot(world, maxlen=self.MAXLEN)
        n = len(world.obs[s].text)
        op = {'op': 'fmt', 'r': s, 'spec': self.spec(n), 'd': self.slot() if r.random() < 0.3 else None}
        if r.random() < 0.08:
            op['spec'] = {'raw': r.choice(badops.BAD_STRING_SPECS if self.oracle.prop == 'C12' else badops._BAD_SPECS)}
        if r.random() < 0.5:
            op['flags'] = [r.random() < 0.5, r.random() < 0.5, r.random() < 0.5]
            if not op['spec'] and r.random() < 0.5:
                op['pass_empty'] = True    # to_str('') instead of to_str(None)
        return op

    def g_render(self, world):
        r = self.rng
        return {'op': 'render', 'r': self.recv_slot(world), 'flags': [r.random() < 0.5, r.random() < 0.5, r.random() < 0.5],
                'd': self.slot() if r.random() < 0.5 else None}

    def g_case(self, world):
        r = self.rng
        return {'op': 'case', 'r': self.recv_slot(world), 'd': self.slot(), 'ip': self.ip(),
                'how': r.choice(['lower', 'upper', 'capitalize', 'casefold', 'swapcase', 'title'])}

    def g_assign(self, world):
        r = self.rng
        cands = self.slots_of(world, (S,), nonempty=True) or self.slots_of(world, (S,))
        if not cands:
            return self.g_new(world)
        s = r.choice(cands)
        t = world.obs[s].text
        x = r.random()
        if x < 0.4:
            new = t + self.text(1, 3)
        elif x < 0.7:
            new = t[:r.randint(0, len(t))]
        else:
            new = self.text(0)
        if r.random() < 0.05:
            # assign_str takes the text as is: escape sequences become part of the base string
            k = r.randint(0, len(new))
            new = new[:k] + r.choice(['\x1b[1m', '\x1b[31m', '\x1b[0m', '\x1b[2J', '\x1b[']) + new[k:]
        return {'op': 'assign', 'r': s, 'text': new}

    def g_setansi(self, world):
        r = self.rng
        cands = self.slots_of(world, (S,))
        if not cands:
            return self.g_new(world)
        src = self.recv_slot(world)
        return {'op': 'setansi', 'r': r.choice(cands), 'text': world.obs[src].render}

    def g_strip(self, world):
        r = self.rng
        s = self.recv_slot(world)
        t = world.obs[s].text
        chars = None
        if r.random() < 0.6 and t:
            chars = ''.join(sorted(set(r.choice([t[0], t[-1], r.choice(t)]) for _ in range(r.choice([1, 2, 3])))))
            if r.random() < 0.05:
                chars = ''
        op = {'op': 'strip', 'r': s, 'd': self.slot(), 'ip': self.ip(), 'how': r.choice(['strip', 'lstrip', 'rstrip']),
              'chars': chars}
        if chars is None and r.random() < 0.3:
            op['explicit_none'] = True
        return op

    def g_rmfix(self, world):
        r = self.rng
        s = self.recv_slot(world)
        t = world.obs[s].text
        how = r.choice(['prefix', 'suffix'])
        k = r.randint(1, max(1, min(3, len(t))))
        x = (t[:k] if how == 'prefix' else t[len(t) - k:]) if (t and r.random() < 0.75) else self.pattern(world.obs[s])
        if not x and r.random() < 0.5:
            x = 'a'           # otherwise the empty affix itself (str: the text is returned unchanged)
        return {'op': 'rmfix', 'r': s, 'd': self.slot(), 'ip': self.ip(), 'how': how, 'x': x}

    def g_split(self, world):
        r = self.rng
        s = self.recv_slot(world)
        op = {'op': 'split', 'r': s, 'how': r.choice(['split', 'rsplit']), 'd': self.slot(), 'pick': r.randrange(6)}
        if r.random() < 0.75:
            op['sep'] = self.pattern(world.obs[s]) or '-'
        if r.random() < 0.4:
            op['max'] = r.choice([-1, 0, 1, 2, 3, 9])
        return op

    def g_splitlines(self, world):
        r = self.rng
        op = {'op': 'splitlines', 'r': self.recv_slot(world), 'd': self.slot(), 'pick': r.randrange(4)}
        if r.random() < 0.6:
            op['keep'] = r.random() < 0.5
        return op

    def g_partition(self, world):
        r = self.rng
        s = self.recv_slot(world)
        return {'op': 'partition', 'r': s, 'how': r.choice(['partition', 'rpartition']),
                'sep': self.pattern(world.obs[s]) or '-', 'd': self.slot(), 'pick': r.randrange(3)}

    def g_replace(self, world):
        r = self.rng
        s = self.recv_slot(world, maxlen=24)
        old = self.pattern(world.obs[s])
        if r.random() < 0.1:
            # the receiver itself as the replacement, for a pattern that occurs several times
            small = [i for i in self.slots_of(world, (S, A), nonempty=True) if len(world.obs[i].text) <= 8]
            if small:
                s = r.choice(small)
                t = world.obs[s].text
                rep = [ch for ch in set(t) if t.count(ch) >= 2]
                old = r.choice(sorted(rep)) if rep else (t[0] if t else 'a')
                op = {'op': 'replace', 'r': s, 'd': self.slot(), 'ip': self.ip(), 'old': old, 'new': {'slot': s}}
                if r.random() < 0.3:
                    op['count'] = r.choice([-1, 2, 3])
                return op
        if not old or (self.oracle.prop != 'C09' and old == ''):
            old = 'a'
        if self.oracle.prop == 'C09' and r.random() < 0.08:
            old = ''
        op = {'op': 'replace', 'r': s, 'd': self.slot(), 'ip': self.ip(), 'old': old,
              'new': self.operand(world, s if r.random() < 0.3 else None, maxlen=6, esc=self.oracle.prop in ('C11', 'C09', 'C13', 'C08'))}
        if r.random() < 0.4:
            op['count'] = r.choice([-1, 0, 1, 2, 9, -2, -5])
        return op

    def g_expandtabs(self, world):
        r = self.rng
        cands = [i for i in self.slots_of(world, (S, A)) if '\t' in world.obs[i].text and len(world.obs[i].text) <= 24]
        s = r.choice(cands) if cands else self.recv_slot(world, maxlen=24)
        op = {'op': 'expandtabs', 'r': s, 'd': self.slot(), 'ip': self.ip()}
        if r.random() < 0.7:
            op['tab'] = r.choice([0, 1, 2, 4, 4, 8, -1])
        return op

    def g_fmatch(self, world):
        r = self.rng
        s = self.recv_slot(world)
        o = world.obs[s]
        regex = r.random() < 0.4
        if regex:
            ch = r.choice(o.text) if o.text else 'a'
            ch = ch if ch.isalnum() else 'a'
            pat = r.choice(['%s+' % ch, '[a-z]', '%s*' % ch, '(?<=%s).' % ch, '.', '%s|b' % ch, '\\w\\w', '', '\\b', '[^a]+',
                            '(?=%s)' % ch, '.?', '%s*?' % ch, '%s??' % ch, '.*?', '|%s' % ch, '\\b|%s' % ch, '^|%s' % ch,
                            '%s+?' % ch, '(?:%s|)' % ch, '$|.', '(%s)|(.)' % ch, '\\s*', '.{2}', '(?i:%s)' % ch.upper()])
        else:
            pat = self.pattern(o)
            if r.random() < 0.15:
                pat = r.choice(['.', 'a.', '(', 'a+', '[a]', '\\', '^', '$', 'a|b', '*'])
        how = r.choice(['format', 'format', 'unformat'])
        op = {'op': 'fmatch', 'r': s, 'd': self.slot(), 'ip': self.ip(), 'how': how, 'pat': pat, 'regex': regex,
              'case': r.random() < 0.5, 'count': r.choice([-1, -1, 0, 1, 2, 3, -2, -7])}
        if r.random() < 0.3:
            op['defaults'] = True
        if how == 'format':
            op['st'] = self.settings()
            op['star'] = r.random() < 0.5 and not isinstance(op['st'], str)
        else:
            x = r.random()
            if x < 0.3:
                op['st'] = None
            elif x < 0.4:
                op['st'] = None
                op['none'] = True
            else:
                op['st'] = self.selection(o)
                op['star'] = r.random() < 0.5
        if self.oracle.prop == 'C16' and r.random() < 0.08:
            # format specifiers as separate positional arguments that only together form parameter groups; the
            # relation (same state as apply/remove_formatting with that tuple) needs no model of the grouping
            op['raw'] = r.choice([[38, 5, 214], [1, 31], ['38;5', 214], [48, 2, 1, 2, 3], [4, '58;5', 9], [38, 5, 214, 1],
                                  ['bold', 38, 5, 9], [38, '5;9'], [31, 'bold', 4], [58, 2, 1, 2, 3, 'red']])
            op['st'] = None
            op.pop('none', None)
        return op

    def g_applymatch(self, world):
        r = self.rng
        s = self.recv_slot(world)
        o = world.obs[s]
        ch = r.choice(o.text) if o.text else 'a'
        ch = ch if ch.isalnum() else 'a'
        pat, groups = r.choice([('(%s)(.?)' % ch, 2), ('.(.)', 1), ('(%s+)' % ch, 1), ('(.)(.)(.)?', 3), ('%s' % ch, 0), ('()(.)', 2)])
        return {'op': 'applymatch', 'r': s, 'd': self.slot(), 'ip': self.ip(), 'pat': pat, 'nth': r.choice([0, 0, 1, 2]),
                'group': r.randint(0, groups), 'st': self.settings()}

    def g_find(self, world):
        r = self.rng
        s = self.recv_slot(world)
        o = world.obs[s]
        n = len(o.text)
        far = r.random() < 0.15       # bounds beyond +-len are normalised like slice bounds
        a = self.index(o, allow_out=far)
        b = self.index(o, allow_out=far)
        st = self.selection(o) if r.random() < 0.9 else None
        return {'op': 'find', 'r': s, 'st': st, 'a': a if (a is not None or r.random() < 0.3) else 0, 'b': b,
                'rev': r.random() < 0.3}

    def g_query(self, world):
        r = self.rng
        s = self.recv_slot(world)
        o = world.obs[s]
        n = len(o.text)
        q = r.choice(['settings_at', 'settings_at', 'flags', 'eq', 'contains', 'len', 'base_str', 'encode', 'repr', 'count',
                      'find', 'rfind', 'index', 'rindex', 'endswith', 'isalnum', 'isalpha', 'isascii', 'isdecimal', 'isdigit',
                      'isidentifier', 'islower', 'isnumeric', 'isprintable', 'isspace', 'istitle', 'isupper'])
        op = {'op': 'query', 'r': s, 'q': q}
        if q == 'settings_at':
            if r.random() < 0.3:
                op['scribble'] = True
            op['idx'] = [r.choice([-1, 0, n - 1, n, n + 1, r.randint(0, max(0, n)), -n, 10 ** 6]) for _ in range(4)]
            cps = o.change_points()
            if cps:
                op['idx'].append(r.choice(cps))
        elif q == 'encode' and r.random() < 0.6:
            op['args'] = r.choice([['utf-8'], ['utf-16'], ['latin-1', 'replace'], ['ascii', 'ignore'], ['ascii', 'xmlcharrefreplace'],
                                   ['utf-8', 'strict']])
        elif q in ('eq', 'contains'):
            op['o'] = self.operand(world, s)
        elif q in ('count', 'find', 'rfind', 'endswith', 'index', 'rindex'):
            op['args'] = [self.pattern(o)] + ([self.index(o)] if r.random() < 0.4 else [])
            if r.random() < 0.3 and len(op['args']) == 2:
                op['args'].append(self.index(o))
            if q in ('index', 'rindex') and (not o.text or self.oracle.prop == 'C09'):
                # an absent substring raises ValueError; C09 injects that as a fault of its own
                op['q'] = 'find' if q == 'index' else 'rfind'
        return op

    def g_simplify(self, world):
        return {'op': 'simplify', 'r': self.recv_slot(world), 'd': self.slot(), 'ip': self.ip()}

    def g_roundtrip(self, world):
        return {'op': 'roundtrip', 'r': self.recv_slot(world), 'd': self.slot()}

    def g_bad(self, world):
        r = self.rng
        s = self.recv_slot(world)
        o = world.obs[s]
        what = r.choice(badops.NAMES)
        a, b = self.rng_pair(o)
        op = {'op': 'bad', 'r': s, 'what': what, 'var': r.randrange(1000), 'ip': self.ip(), 'a': a if a is not None else 0,
              'b': b, 'top': r.random() < 0.5, 'w': self.width(len(o.text)), 'pat': self.pattern(o) or 'a',
              'cls': A if r.random() < 0.3 else S}
        return op
