"""Command line entry of every check.

  python -B -m sim.check --property C05 --tier quick
  python -B -m sim.check --replay out/replays/C05-0-17.json
  python -B -m sim.check --property C05 --show 17          (debugging: print run 17 and its minimised form)

Exit codes: 0 held on everything explored; 1 VIOLATION (line printed); 2 HARNESS-ERROR;
3 HARNESS-TIMEOUT.
"""
import argparse
import concurrent.futures as cf
import faulthandler
import glob
import hashlib
import json
import multiprocessing as mp
import os
import subprocess
import sys
import time
import traceback

ROOT = os.path.dirname(os.path.dirname(os.path.abspath(__file__)))
WORKERS = 16
RUN_WATCHDOG_S = 300

TIERS = {
    # runs per tier; every long_every-th run of the thorough tier is a long history (60-120 steps)
    'quick': {'runs': 30000, 'long_every': 0},
    'thorough': {'runs': 1500000, 'long_every': 10},
}
RUNS_OVERRIDE = {
    # heavier oracles get fewer runs per tier so that wall time stays comparable (quick: well under a minute
    # on 16 cores; thorough: 10-25 minutes)
    'C05': {'quick': 12000, 'thorough': 400000},
    'C01': {'quick': 20000, 'thorough': 800000},
    'C09': {'quick': 15000, 'thorough': 600000},
    'C13': {'quick': 20000, 'thorough': 1000000},
}


def _imports():
    sys.path.insert(0, ROOT)
    from sim import lib, run, oracles, avoid, sweeps, atoms  # noqa
    return lib, run, oracles, avoid, sweeps, atoms


_found = None


def _init_worker(found):
    global _found
    _found = found


def _worker(args):
    prop, seed, w, nruns, long_every, collect = args
    lib, run, oracles, avoid, sweeps, atoms = _imports()
    agg = {'runs': 0, 'steps': 0, 'events': 0, 'stats': {}, 'nontrivial': [], 'states': set(), 'violation': None,
           'samples': [], 'digest': hashlib.sha256(), 'harness_error': None, 'first_k': None, 'last_k': None}
    for k in range(w, nruns, WORKERS):
        if _found is not None and _found.value >= 0 and _found.value < k:
            break
        faulthandler.dump_traceback_later(RUN_WATCHDOG_S, exit=True)
        long_run = bool(long_every) and (k % long_every == long_every - 1)
        try:
            r = run.simulate(prop, seed, k, long_run=long_run, collect_states=collect)
        except Exception:
            agg['harness_error'] = (k, traceback.format_exc())
            break
        finally:
            faulthandler.cancel_dump_traceback_later()
        agg['runs'] += 1
        agg['steps'] += r.steps
        agg['events'] += r.events
        if agg['first_k'] is None:
            agg['first_k'] = k
        agg['last_k'] = k
        for key, v in r.stats.items():
            agg['stats'][key] = agg['stats'].get(key, 0) + v
        agg['digest'].update(('%d:%s;' % (k, r.digest)).encode())
        if r.nontrivial:
            agg['nontrivial'].append(run._hist_digest(r.knobs, r.history))
        if collect:
            agg['states'] |= r.states
        if len(agg['samples']) < 1 and r.nontrivial and 3 <= r.steps <= 8:
            agg['samples'].append({'run_index': k, 'knobs': r.knobs, 'ops': r.history})
        if r.violation is not None:
            agg['violation'] = (k, r.knobs, r.history, r.violation.to_json())
            if _found is not None:
                with _found.get_lock():
                    if _found.value < 0 or k < _found.value:
                        _found.value = k
            break
    agg['digest'] = agg['digest'].hexdigest()
    agg['states'] = list(agg['states'])
    return agg


def search(prop, seed, nruns, long_every, workers=WORKERS, collect=True):
    ctx = mp.get_context('fork')
    found = ctx.Value('q', -1)
    jobs = [(prop, seed, w, nruns, long_every, collect) for w in range(WORKERS)]
    with cf.ProcessPoolExecutor(max_workers=workers, mp_context=ctx, initializer=_init_worker, initargs=(found,)) as ex:
        return list(ex.map(_worker, jobs))


def _fresh_replay(path, hashseed):
    env = dict(os.environ)
    env['PYTHONHASHSEED'] = str(hashseed)
    p = subprocess.run([sys.executable, '-B', '-m', 'sim.check', '--replay', path, '--quiet'], cwd=ROOT, env=env,
                       capture_output=True, text=True, timeout=600)
    return p.returncode, p.stdout + p.stderr


def report_violation(prop, seed, k, knobs, history, vio_json, run, out_dir, quiet=False):
    """Minimise, write the replay file, confirm it reproduces in fresh interpreters."""
    pred = vio_json['predicate']
    hist, kn, tests = run.minimise(prop, knobs, history, pred)
    res = run.replay_ops(prop, kn, hist)
    if not run.same_failure(res, prop, pred):
        hist, kn, res = history, knobs, run.replay_ops(prop, knobs, history)
    path = os.path.join(out_dir, '%s-%d-%d.json' % (prop, seed, k))
    run.write_replay(path, prop, seed, k, kn, hist, res.violation,
                     note='minimised from %d to %d ops in %d replays' % (len(history), len(hist), tests))
    rc1, o1 = _fresh_replay(path, 0)
    rc2, o2 = _fresh_replay(path, 12345)
    if rc1 != 1 or rc2 != 1:
        print('HARNESS-ERROR: replay of %s does not reproduce in a fresh interpreter (rc=%s/%s)\n%s\n%s' % (
            path, rc1, rc2, o1[-2000:], o2[-2000:]))
        return 2, path
    if not quiet:
        print('violation: property=%s predicate=%s run_index=%d ops=%d' % (prop, pred, k, len(hist)))
        print(json.dumps(res.violation.to_json(), indent=1, default=repr)[:3000])
        for i, op in enumerate(hist):
            print('  op[%d] %s' % (i, json.dumps(op, sort_keys=True)))
    print('VIOLATION property=%s replay=%s' % (prop, path))
    return 1, path


def replay_file(path, quiet=False):
    lib, run, oracles, avoid, sweeps, atoms = _imports()
    doc = run.load_replay(path)
    prop = doc['property']
    if doc.get('kind') == 'sweep':
        v = sweeps.replay(doc)
    else:
        res = run.replay_ops(prop, doc['knobs'], doc['ops'])
        v = res.violation
    want = doc.get('violation')
    if v is None:
        if not quiet:
            print('replay: no violation (library digest %s, recorded %s)' % (lib.library_digest(), doc.get('library_digest')))
        return 0
    if not quiet:
        print(json.dumps(v.to_json(), indent=1, default=repr)[:4000])
    if want and (want['predicate'] != v.predicate):
        print('replay: a different predicate fails now: %s (recorded %s)' % (v.predicate, want['predicate']))
    print('VIOLATION property=%s replay=%s' % (prop, path))
    return 1


def main(argv=None):
    ap = argparse.ArgumentParser()
    ap.add_argument('--property')
    ap.add_argument('--tier', default=os.environ.get('VERIF_TIER', 'quick'))
    ap.add_argument('--runs', type=int)
    ap.add_argument('--workers', type=int, default=WORKERS)
    ap.add_argument('--replay')
    ap.add_argument('--show', type=int)
    ap.add_argument('--quiet', action='store_true')
    ap.add_argument('--no-evidence', action='store_true')
    ap.add_argument('--digest-only', action='store_true')
    ap.add_argument('--long', action='store_true')
    ap.add_argument('--no-corpus', action='store_true', help='skip the regression corpus (sensitivity experiments only)')
    ap.add_argument('--save', help='with --show: write the minimised history as a replay/witness file')
    ap.add_argument('--pred', help='with --show: search forward from K for the first run failing this predicate')
    args = ap.parse_args(argv)
    if args.replay:
        return replay_file(args.replay, args.quiet)

    lib, run, oracles, avoid, sweeps, atoms = _imports()
    prop = args.property
    if prop not in oracles.ORACLES:
        print('HARNESS-ERROR: no check for property %r' % prop)
        return 2
    seed = int(os.environ.get('VERIF_SEED', '0'))
    tier = args.tier if args.tier in TIERS else 'quick'
    nruns = args.runs or RUNS_OVERRIDE.get(prop, {}).get(tier) or TIERS[tier]['runs']
    long_every = TIERS[tier]['long_every']
    out_dir = os.path.join(ROOT, 'out', 'replays')

    if args.show is not None:
        kk = args.show
        r = run.simulate(prop, seed, kk, long_run=args.long)
        while args.pred and (r.violation is None or r.violation.predicate != args.pred) and kk < args.show + 20000:
            kk += 1
            r = run.simulate(prop, seed, kk, long_run=args.long)
        print('run_index', kk, 'knobs', r.knobs, 'steps', r.steps, 'stats', r.stats)
        if r.violation is None:
            for i, op in enumerate(r.history):
                print('  op[%d] %s' % (i, json.dumps(op, sort_keys=True)))
            print('no violation')
            return 0
        pred = r.violation.predicate
        hist, kn, tests = run.minimise(prop, r.knobs, r.history, pred)
        res = run.replay_ops(prop, kn, hist)
        print('predicate', pred, 'minimised', len(r.history), '->', len(hist), 'in', tests, 'replays; knobs', kn)
        for i, op in enumerate(hist):
            print('  op[%d] %s' % (i, json.dumps(op, sort_keys=True)))
        print(json.dumps(res.violation.to_json(), indent=1, default=repr)[:6000])
        if args.save:
            run.write_replay(os.path.join(ROOT, args.save), prop, seed, kk, kn, hist, res.violation,
                             note='witness found by the seeded search (run %d), minimised from %d to %d ops' % (
                                 kk, len(r.history), len(hist)))
            print('saved', args.save)
        return 1

    t0 = time.time()
    print('check property=%s tier=%s seed=%d runs=%d workers=%d' % (prop, tier, seed, nruns, args.workers))
    print(lib.describe())
    excluded = sorted(atoms.excluded())
    if excluded:
        print('atoms excluded (C14 mapping not honoured by the library under test): %s' % excluded)

    known_seen = []
    violations = 0
    # ---- open known findings: replay each witness; still failing -> KNOWN-FINDING line
    for f in avoid.parse_known_findings():
        if f.get('property') != prop or f['status'] != 'open':
            continue
        wpath = os.path.join(ROOT, f['witness'])
        doc = run.load_replay(wpath)
        res = run.replay_ops(prop, doc['knobs'], doc['ops'])
        if res.violation is not None and res.violation.predicate == doc['violation']['predicate']:
            print('KNOWN-FINDING: property=%s %s [%s, witness %s]' % (prop, f['text'], f.get('id'), f['witness']))
            known_seen.append(f.get('id'))
        elif res.violation is not None:
            print('violation: witness %s now fails a different predicate %s' % (wpath, res.violation.predicate))
            rc, _ = report_violation(prop, seed, -1, doc['knobs'], doc['ops'], res.violation.to_json(), run, out_dir)
            return rc
    # ---- regression corpus (witnesses of fixed findings and earlier catches)
    reg_n = 0
    open_witnesses = {f['witness'] for f in avoid.parse_known_findings() if f['status'] == 'open'}
    for path in ([] if args.no_corpus else sorted(glob.glob(os.path.join(ROOT, 'regressions', '*.json')) +
                                                  glob.glob(os.path.join(ROOT, 'regressions', 'corpus', '*.json')))):
        rel = os.path.relpath(path, ROOT)
        if rel in open_witnesses:
            continue
        doc = run.load_replay(path)
        if doc['property'] != prop:
            continue
        reg_n += 1
        if doc.get('kind') == 'sweep':
            v = sweeps.replay(doc)
        else:
            v = run.replay_ops(prop, doc['knobs'], doc['ops']).violation
        if v is not None:
            print('violation: regression witness fails again: %s predicate=%s' % (rel, v.predicate))
            print(json.dumps(v.to_json(), indent=1, default=repr)[:3000])
            print('VIOLATION property=%s replay=%s' % (prop, path))
            return 1
    # ---- directed / exhaustive sweeps
    sweep_info = sweeps.run_for(prop, tier, out_dir)
    if sweep_info.get('violation'):
        print(json.dumps(sweep_info['violation'], indent=1, default=repr)[:3000])
        print('VIOLATION property=%s replay=%s' % (prop, sweep_info['replay']))
        return 1
    # ---- seeded search
    try:
        aggs = search(prop, seed, nruns, long_every, args.workers, collect=not args.digest_only)
    except cf.process.BrokenProcessPool:
        print('HARNESS-TIMEOUT: a worker died (watchdog %ds) -- see stderr' % RUN_WATCHDOG_S)
        return 3
    herr = [a['harness_error'] for a in aggs if a['harness_error']]
    if herr:
        k, tb = sorted(herr)[0]
        print('HARNESS-ERROR: exception in harness code at run_index=%d\n%s' % (k, tb))
        return 2
    vios = sorted([a['violation'] for a in aggs if a['violation']], key=lambda v: v[0])
    total = {'runs': sum(a['runs'] for a in aggs), 'steps': sum(a['steps'] for a in aggs),
             'events': sum(a['events'] for a in aggs)}
    stats = {}
    for a in aggs:
        for key, v in a['stats'].items():
            stats[key] = stats.get(key, 0) + v
    nontrivial = set()
    states = set()
    for a in aggs:
        nontrivial.update(a['nontrivial'])
        states.update(a['states'])
    digest = hashlib.sha256(''.join(a['digest'] for a in aggs).encode()).hexdigest()[:16]
    wall = time.time() - t0
    print('runs=%d steps=%d wall=%.1fs runs/h=%d digest=%s nontrivial=%d states=%d' % (
        total['runs'], total['steps'], wall, int(total['runs'] / max(wall, 1e-9) * 3600), digest, len(nontrivial), len(states)))
    if args.digest_only:
        print('DIGEST %s' % digest)
    rc = 0
    replay_path = None
    if vios:
        k, knobs, history, vj = vios[0]
        rc, replay_path = report_violation(prop, seed, k, knobs, history, vj, run, out_dir)
        violations = 1
    if not args.no_evidence:
        from sim import evidence
        samples = [s for a in aggs for s in a['samples']][:3]
        evidence.write(prop, tier, seed, total, stats, nontrivial, states, samples, sweep_info, known_seen, reg_n,
                       time.time() - t0, violations, excluded, nruns, long_every, digest)
    return rc


if __name__ == '__main__':
    sys.exit(main())
