"""Per-property oracles: the per-step refinement relations and world invariants of DESIGN.md
section 4.  Each oracle gates only on its own property's predicates.
"""
import copy
import itertools
import re
from collections import Counter

from . import atoms, badops, codes, display, lib, models, ops, strref
from . import terminal as T
from .codes import sim, eff_group, groups, wf
from .engine import Oracle, Fail, require
from .obs import S, A, observe, kind_of
from .models import compare, norm_range

AnsiString, AnsiStr, AnsiSetting = lib.AnsiString, lib.AnsiStr, lib.AnsiSetting


def _may_be_rejected(ctx):
    """Inputs the statements do not pin down - a negative width (format() has none), a replace count below -1 - may be
    rejected with a documented error type; when accepted they are judged like any other call."""
    op = ctx.op
    if ctx.exc is None or not isinstance(ctx.exc, (TypeError, ValueError)) or _SELF_CHECK_MSG in str(ctx.exc):
        return False
    if ctx.kind == 'pad' and isinstance(op.get('w'), int) and op['w'] < 0:
        return True
    if ctx.kind == 'replace' and isinstance(op.get('count'), int) and op['count'] < -1:
        return True
    return False


def _own_preamble(ctx, name):
    """An operation the relation belongs to must complete."""
    if ctx.timeout:
        raise Fail(name + '.op_completed', why='step budget exhausted')
    if ctx.exc is not None:
        raise Fail(name + '.op_completed', exc='%s: %s' % (type(ctx.exc).__name__, ctx.exc))
    if ctx.result_sick is not None:
        raise Fail(name + '.op_completed', exc='result not observable: %s: %s' % (
            type(ctx.result_sick).__name__, ctx.result_sick))


def _expect(post, exp, name, **extra):
    d = compare(post, exp)
    if d is not None:
        what, idx, want, got = d
        raise Fail('%s.%s' % (name, what), index=idx, want=want, got=got, **extra)


def _cell_settings(cell):
    """Verbatim AnsiSetting objects reproducing a cell."""
    return [AnsiSetting(c) for c in cell]


def _probe_closure(val, name, world=None):
    """Text appended to `val` keeps only its own style."""
    if val is None or isinstance(val, str) and not isinstance(val, AnsiStr):
        return
    base = observe(val)
    p = val + 'Z'
    o = observe(p)
    require(o.text == base.text + 'Z' and o.cells[-1] == (), name + '.closure_plain',
            value=base.to_json(), appended_cell=list(o.cells[-1]) if o.cells else None)
    for i in range(len(base.text)):
        require(sim(o.cells[i], base.cells[i]), name + '.closure_plain_prefix', index=i,
                want=list(base.cells[i]), got=list(o.cells[i]))
    if isinstance(val, AnsiString):
        # the same on an exact clone of the object, appended to in place (a copy made by the library
        # could drop state that the object itself still carries)
        c = copy.deepcopy(val)
        c += 'Z'
        oc = observe(c)
        require(oc.text == base.text + 'Z' and oc.cells[-1] == (), name + '.closure_inplace',
                value=base.to_json(), appended_cell=list(oc.cells[-1]) if oc.cells else None)
    # styled probe: same settings as the last character (exercises the seam-merge path), and a
    # different one
    variants = [('34',)]
    if base.cells and base.cells[-1]:
        variants.append(base.cells[-1])
        variants.append(base.cells[-1][:1])
    for x in variants:
        probe = AnsiString('Z', _cell_settings(x))
        own = observe(probe).cells[0]        # what the appended text reports on its own
        q = val + probe
        oq = observe(q)
        require(oq.text == base.text + 'Z' and sim(oq.cells[-1], own), name + '.closure_styled',
                value=base.to_json(), probe=list(own), appended_cell=list(oq.cells[-1]) if oq.cells else None)
        for i in range(len(base.text)):
            require(sim(oq.cells[i], base.cells[i]), name + '.closure_styled_prefix', index=i, probe=list(x),
                    want=list(base.cells[i]), got=list(oq.cells[i]))


def _adjacent_to_cp(obs, *idx):
    cps = set(obs.change_points())
    near = set()
    for c in cps:
        near.update((c - 1, c, c + 1))
    return any(i in near for i in idx)


# =============================================================================== C04
class C04(Oracle):
    prop = 'C04'
    own_kinds = frozenset({'slice', 'index', 'clip', 'iter'})

    def before(self, ctx):
        try:
            if ctx.kind == 'clip':
                ctx.clip_twin = ctx.recv[ctx.op.get('a'):ctx.op.get('b')]
            elif ctx.kind == 'index':
                n = len(ctx.pre.text)
                j = ctx.op['i'] + n if ctx.op['i'] < 0 else ctx.op['i']
                ctx.index_twin = ctx.recv[j:j + 1]
        except Exception as e:
            raise Fail('slice.op_completed', exc='%s: %s' % (type(e).__name__, e), op=ctx.op)

    def step(self, ctx):
        k = ctx.kind
        if k not in self.own_kinds:
            return
        _own_preamble(ctx, k)
        op, pre = ctx.op, ctx.pre
        if k in ('slice', 'clip'):
            exp = models.m_slice(pre, op.get('a'), op.get('b'))
            n = len(pre.text)
            w = ctx.world
            if any(pre.cells):
                i0, i1 = norm_range(n, op.get('a'), op.get('b'))
                cps = set(pre.change_points())
                if i1 <= i0:
                    w.count('probe:empty_slice_of_formatted')
                if i0 in cps or i1 in cps:
                    w.count('probe:bound_on_change_point')
                if (i0 - 1 in cps or i0 + 1 in cps or i1 - 1 in cps or i1 + 1 in cps):
                    w.count('probe:bound_next_to_change_point')
                if any(isinstance(x, int) and x < 0 for x in (op.get('a'), op.get('b'))):
                    w.count('probe:negative_bound')
                if any(isinstance(x, int) and x > n for x in (op.get('a'), op.get('b'))):
                    w.count('probe:bound_beyond_length')
                if any(len(set(c)) < len(c) for c in pre.cells[i0:i1]):
                    w.count('probe:equal_settings_overlap_in_range')
            _expect(ctx.post, exp, k)
            _probe_closure(ctx.result, k)
            if k == 'clip':
                # clip(a, b) equals s[a:b]
                other = observe(ctx_recv_before_slice(ctx))
                _expect(other, exp, 'clip_vs_slice')
        elif k == 'index':
            exp = models.m_index(pre, op['i'])
            _expect(ctx.post, exp, k)
            one = observe(index_as_slice(ctx))
            _expect(one, exp, 'index_vs_slice')
            _probe_closure(ctx.result, k)
        elif k == 'iter':
            exps = models.m_iter(pre)
            require(ctx.post is not None and len(ctx.post) == len(exps), 'iter.count',
                    want=len(exps), got=None if ctx.post is None else len(ctx.post))
            for j, (o, e) in enumerate(zip(ctx.post, exps)):
                _expect(o, e, 'iter', item=j)
            for item in list(ctx.result)[:3]:
                _probe_closure(item, 'iter')

    def nontrivial(self, ctx):
        k = ctx.kind
        if k not in self.own_kinds or ctx.pre is None or not any(ctx.pre.cells):
            return False
        if k == 'iter':
            return len(set(ctx.pre.cells)) > 1
        n = len(ctx.pre.text)
        if k == 'index':
            i = ctx.op['i']
            return _adjacent_to_cp(ctx.pre, i if i >= 0 else i + n)
        a, b = norm_range(n, ctx.op.get('a'), ctx.op.get('b'))
        return _adjacent_to_cp(ctx.pre, a, b)


def ctx_recv_before_slice(ctx):
    """s[a:b] computed on the receiver before the clip."""
    return ctx.clip_twin


def index_as_slice(ctx):
    return ctx.index_twin


# =============================================================================== C05
def _operand_obs(ctx):
    return [ctx.operands[repr(sorted(d.items()))][1] for d in engine_operand_descs(ctx.op)]


def engine_operand_descs(op):
    from .engine import operand_descs
    return operand_descs(op)


class C05(Oracle):
    prop = 'C05'
    own_kinds = frozenset({'add', 'iadd', 'join'})

    def step(self, ctx):
        k = ctx.kind
        if k in self.own_kinds:
            _own_preamble(ctx, k)
            oo = _operand_obs(ctx)
            if k == 'join':
                exp = models.m_concat(oo) if oo else models.Exp('', ())
                seq = oo
            else:
                exp = models.m_concat([ctx.pre] + oo)
                seq = [ctx.pre] + oo
            w = ctx.world
            for x, y in zip(seq, seq[1:]):
                lc = x.cells[-1] if x.cells else ()
                rc = y.cells[0] if y.cells else ()
                if lc and rc:
                    if lc == rc:
                        w.count('probe:seam_equal_settings')
                    elif lc[:len(rc)] == rc or rc[:len(lc)] == lc:
                        w.count('probe:seam_prefix_equal')
                    elif set(lc) & set(rc):
                        w.count('probe:seam_partly_equal')
                    else:
                        w.count('probe:seam_different')
                elif lc or rc:
                    w.count('probe:seam_one_side_plain')
                if not x.text or not y.text:
                    w.count('probe:empty_operand')
            if k != 'join' and any('slot' in d and d['slot'] % len(w.vals) == ctx.recv_slot for d in engine_operand_descs(ctx.op)):
                w.count('probe:self_operand')
            if any(getattr(x, 'literal', None) is not None for x in oo):
                # a plain str that carries escape sequences: C05 says "characters of a plain str have none" and the
                # library documents that a str operand is taken as AnsiString(operand) - either the operand is
                # parsed on its own or it is appended literally; anything else (e.g. its sequences acting on a
                # neighbouring operand) is wrong under both readings
                # (each such operand on its own: the first operand of join goes through the constructor)
                choices = [[x] if getattr(x, 'literal', None) is None else [x, x.literal] for x in oo]
                ok = False
                for combo in itertools.product(*choices):
                    e2 = models.m_concat(list(combo)) if k == 'join' else models.m_concat([ctx.pre] + list(combo))
                    if compare(ctx.post, e2) is None:
                        ok = True
                        break
                if not ok:
                    lit = [getattr(x, 'literal', None) or x for x in oo]
                    _expect(ctx.post, models.m_concat(lit) if k == 'join' else models.m_concat([ctx.pre] + lit),
                            k + '.plain_operand_with_escapes')
            else:
                _expect(ctx.post, exp, k)
            if k == 'join' and len(ctx.op['xs']) >= 2 and not any(getattr(x, 'literal', None) is not None for x in oo):
                # the operand objects as resolved before the call (the result may since have been
                # stored over one of their slots)
                vals = [ctx.operands[repr(sorted(d.items()))][0] for d in ctx.op['xs']]
                acc = vals[0] if not (isinstance(vals[0], str) and not isinstance(vals[0], AnsiStr)) else AnsiString(vals[0])
                for x in vals[1:]:
                    acc = acc + x
                fo = observe(acc)
                require(fo.text == ctx.post.text and fo.cells == ctx.post.cells, 'join.equals_left_fold',
                        join=ctx.post.to_json(), fold=fo.to_json())
        # split / rejoin on the value this step produced or changed (any op kind)
        tgt = None
        if ctx.exc is None and not ctx.timeout:
            if ctx.ip and ctx.recv_slot is not None:
                tgt = ctx.world.vals[ctx.recv_slot]
            elif ctx.stored is not None:
                tgt = ctx.world.vals[ctx.stored]
        if tgt is not None and not (isinstance(tgt, str) and not isinstance(tgt, AnsiStr)):
            slot = ctx.recv_slot if ctx.ip else ctx.stored
            base = ctx.post_all[slot]
            if base is not None and len(base.text) <= 24:
                self.split_rejoin(tgt, base, ctx)
            if base is not None and len(base.text) <= 64:
                # a plain str appended to ANY reachable value keeps no settings, a styled one exactly its own
                # (also on an exact clone appended to in place: state the library's copy() may drop)
                _probe_closure(tgt, 'append_probe')
                ctx.world.count('append_probes')

    def split_rejoin(self, v, base, ctx):
        n = len(base.text)
        ev = display.evaluable(base)
        styles = display.expected_styles(base.cells) if ev else None
        if n <= 8:
            ks = range(n + 1)
        else:
            # longer values: the split points that matter are at and next to change points
            want = {0, n, ctx.step % (n + 1)}
            for cp in base.change_points():
                want.update((cp - 1, cp, cp + 1))
            ks = sorted(k for k in want if 0 <= k <= n)
        for kk in ks:
            try:
                j = v[:kk] + v[kk:]
                o = observe(j)
            except Exception as e:
                raise Fail('split_rejoin.op_completed', k=kk, value=base.to_json(), exc='%s: %s' % (type(e).__name__, e))
            d = compare(o, models.Exp(base.text, base.cells))
            if d is not None:
                raise Fail('split_rejoin.' + d[0], k=kk, index=d[1], want=d[2], got=d[3], value=base.to_json())
            if ev:
                display.check_rendering(str(j) if o.kind != A else j.to_str(), base.text, styles, None,
                                        'split_rejoin.display')
            ctx.world.count('split_rejoin_points')

    def nontrivial(self, ctx):
        if ctx.kind not in self.own_kinds:
            return False
        oo = _operand_obs(ctx)
        seq = ([ctx.pre] if ctx.kind != 'join' else []) + oo
        for x, y in zip(seq, seq[1:]):
            if x.cells and y.cells and x.cells[-1] and y.cells[0]:
                return True
        return False


# =============================================================================== C06
def identity_pattern(v):
    """Which reported settings are the same object: per character the first-seen ordinals of the objects
    returned by ansi_settings_at (never raw id() values)."""
    seen = []
    out = []
    for i in range(len(v.base_str)):
        row = []
        for x in v.ansi_settings_at(i):
            for n, y in enumerate(seen):
                if x is y:
                    row.append(n)
                    break
            else:
                seen.append(x)
                row.append(len(seen) - 1)
        out.append(tuple(row))
    return out


def change_point_positions(v):
    """Text indices before which the non-optimised rendering writes an SGR sequence: every change
    point of the value's table is visible this way (public API only).  'No change point at j'
    implies 'no setting begins at j'."""
    out = set()
    pos = 0
    for ev in T.tokenize(v.to_str(optimize=False, reset_start=False, reset_end=False)):
        if ev[0] == 'char':
            pos += 1
        else:
            out.add(pos)
    return out


class C06(Oracle):
    prop = 'C06'
    own_kinds = frozenset({'apply'})

    def before(self, ctx):
        if ctx.kind == 'apply' and ctx.recv is not None:
            try:
                ok = '\x1b' not in ctx.pre.text and all(codes.valid_g(c) for cell in ctx.pre.cells for c in cell)
                ctx.pre_cps = change_point_positions(ctx.recv) if ok else None
            except T.Undefined:
                ctx.pre_cps = None

    def step(self, ctx):
        if ctx.kind != 'apply':
            return
        _own_preamble(ctx, 'apply')
        op, pre, post = ctx.op, ctx.pre, ctx.post
        new = tuple(atoms.codes(op['st']))
        n = len(pre.text)
        a, b = norm_range(n, op['a'], op['b'])
        require(post.text == pre.text, 'apply.text', want=pre.text, got=post.text)
        if b <= a or not new:
            for i in range(n):
                require(post.cells[i] == pre.cells[i], 'apply.noop', index=i, want=list(pre.cells[i]), got=list(post.cells[i]))
            require(post.render == pre.render, 'apply.noop_render', want=pre.render, got=post.render)
            return
        cnew = Counter(new)
        gnew = set()
        for c in new:
            gnew |= groups(c)
        begun = False
        w = ctx.world
        conflict = any(groups(c) & gnew for i in range(a, b) for c in pre.cells[i])
        w.count('probe:%s_%s' % ('topmost' if op['top'] else 'not_topmost', 'with_conflict' if conflict else 'no_conflict'))
        if isinstance(op['b'], int) and op['b'] > n:
            w.count('probe:end_beyond_length')
        if any(isinstance(x, int) and x < 0 for x in (op['a'], op['b'])):
            w.count('probe:negative_bound')
        if len(set(pre.cells[a:b])) > 1:
            w.count('probe:change_point_inside_range')
        for i in range(n):
            if i < a or i >= b:
                require(sim(post.cells[i], pre.cells[i]), 'apply.outside', index=i, range=[a, b],
                        want=list(pre.cells[i]), got=list(post.cells[i]))
                continue
            require(Counter(post.cells[i]) == Counter(pre.cells[i]) + cnew, 'apply.inside_gains_exactly', index=i,
                    range=[a, b], had=list(pre.cells[i]), new=list(new), got=list(post.cells[i]))
            cell_wf = all(wf(c) for c in post.cells[i])
            if not op['top']:
                if cell_wf:
                    touched = set()
                    for c in pre.cells[i]:
                        touched |= groups(c)
                    for g in sorted(touched):
                        require(eff_group(post.cells[i], g) == eff_group(pre.cells[i], g), 'apply.not_topmost_keeps_display',
                                index=i, group=g, had=list(pre.cells[i]), new=list(new), got=list(post.cells[i]))
                else:
                    ctx.world.count('skipped:apply_eff_not_wf')
            else:
                # "for as long as no other setting begins in between": a setting can only begin at a
                # change point of the receiver; without structural information be conservative
                # Within one string distinct spans are distinct setting objects, so a setting begins at
                # i when i is a change point AND the character reports an object its predecessor does
                # not (a pure stop/restart of the same objects is not a new setting).
                cps = getattr(ctx, 'pre_cps', None)
                if i > a and not begun:
                    if cps is None or ctx.pre_objs is None:
                        begun = True
                    elif i in cps or pre.cells[i] != pre.cells[i - 1]:
                        # a sequence is written before this character, or the reported settings differ: something
                        # may begin here (whether it does is not observable by value) - stop demanding
                        begun = True
                    else:
                        prev, cur = ctx.pre_objs[i - 1], ctx.pre_objs[i]
                        begun = any(all(x is not y for y in prev) for x in cur)
                        if not begun:
                            # a setting that is stopped and started again shows as a changed stacking order
                            cp = [x for x in prev if any(x is y for y in cur)]
                            cc = [x for x in cur if any(x is y for y in prev)]
                            begun = len(cp) != len(cc) or any(x is not y for x, y in zip(cp, cc))
                if not begun:
                    if cell_wf:
                        want_cell = tuple(pre.cells[i]) + new
                        for g in sorted(gnew):
                            require(eff_group(post.cells[i], g) == eff_group(want_cell, g), 'apply.topmost_wins',
                                    index=i, group=g, had=list(pre.cells[i]), new=list(new), got=list(post.cells[i]))
                    else:
                        ctx.world.count('skipped:apply_eff_not_wf')

    def nontrivial(self, ctx):
        if ctx.kind != 'apply' or ctx.pre is None:
            return False
        n = len(ctx.pre.text)
        a, b = norm_range(n, ctx.op['a'], ctx.op['b'])
        new = atoms.codes(ctx.op['st'])
        gnew = set()
        for c in new:
            gnew |= groups(c)
        for i in range(a, b):
            for c in ctx.pre.cells[i]:
                if groups(c) & gnew:
                    return True
        return False


# =============================================================================== C07
class C07(Oracle):
    prop = 'C07'
    own_kinds = frozenset({'remove', 'clear'})

    def step(self, ctx):
        k = ctx.kind
        if k not in self.own_kinds:
            return
        _own_preamble(ctx, k)
        op, pre, post = ctx.op, ctx.pre, ctx.post
        if k == 'clear':
            _expect(post, models.m_clear(pre), 'clear')
            return
        sel = None if op.get('st') is None else set(atoms.codes(op['st']))
        n = len(pre.text)
        a, b = norm_range(n, op['a'], op['b'])
        exp = models.m_remove(pre, sel, op['a'], op['b'])
        w = ctx.world
        if b > a:
            inside = [c for cell in pre.cells[a:b] for c in cell]
            if sel is None:
                w.count('probe:selection_none')
            elif not any(c in sel for c in inside):
                w.count('probe:selection_absent')
            else:
                w.count('probe:selection_present')
                if any(cnt > 1 and c in sel for cell in pre.cells[a:b] for c, cnt in Counter(cell).items()):
                    w.count('probe:selection_hits_equal_instances')
                for cell in pre.cells[a:b]:
                    hit = [i for i, c in enumerate(cell) if c in sel]
                    if hit and any(groups(cell[j]) & groups(cell[hit[0]]) for j in range(hit[0] + 1, len(cell))):
                        w.count('probe:selection_hidden_below_conflicting')
                        break
            if b < n and len([c for c in pre.cells[b - 1] if c in pre.cells[b]]) >= 2:
                w.count('probe:two_or_more_span_range_end')
        require(post.text == pre.text, 'remove.text', want=pre.text, got=post.text)
        for i in range(n):
            inside = a <= i < b
            require(sim(post.cells[i], exp.cells[i]), 'remove.inside' if inside else 'remove.outside', index=i,
                    range=[a, b], selection=None if sel is None else sorted(sel),
                    had=list(pre.cells[i]), want=list(exp.cells[i]), got=list(post.cells[i]))
        if b <= a:
            require(post.render == pre.render, 'remove.noop_render', want=pre.render, got=post.render)

    def nontrivial(self, ctx):
        if ctx.kind != 'remove' or ctx.pre is None:
            return False
        n = len(ctx.pre.text)
        a, b = norm_range(n, ctx.op['a'], ctx.op['b'])
        if b <= a:
            return False
        sel = None if ctx.op.get('st') is None else set(atoms.codes(ctx.op['st']))
        last = ctx.pre.cells[b - 1]
        spans_end = b < n and len([c for c in last if c in ctx.pre.cells[b]]) >= 2
        hits_dup = any(sel is not None and any(v > 1 and c in sel for c, v in Counter(cell).items())
                       for cell in ctx.pre.cells[a:b])
        return spans_end or hits_dup


# =============================================================================== C11
class C11(Oracle):
    prop = 'C11'
    own_kinds = frozenset({'case', 'assign', 'strip', 'rmfix', 'split', 'splitlines', 'partition', 'replace',
                           'expandtabs'})

    def before(self, ctx):
        op = ctx.op
        if ctx.kind == 'replace' and op['old'] != '' and '\x1b' in op['new'].get('text', ''):
            # a plain-str replacement that carries escape sequences: per match, what the constructor makes of the
            # str together with the settings of the first character of that match (read before the call)
            ctx.c11_pieces = [observe(AnsiString(op['new']['text'], ctx.recv.ansi_settings_at(a)))
                              for a, _ in strref.replace_matches(ctx.pre.text, op['old'], op.get('count', -1))]
            ctx.world.count('probe:replace_plain_with_escape')

    def _foreign(self, ctx, posts, name):
        """The text differs from str's (C10's business, not claimed), so the character correspondence the
        clause needs is not available.  What still follows from it under ANY correspondence: a surviving
        character reports the settings of SOME character of the original."""
        ctx.world.count('skipped:c11_text_differs_from_str')
        have = set(ctx.pre.cells)
        for j, o in enumerate(posts):
            for i, cell in enumerate(o.cells):
                require(cell in have, name + '.settings_of_no_original_character', piece=j, index=i, got=list(cell),
                        original=ctx.pre.to_json(), text=o.text)

    def _cmp(self, ctx, post, exp, name, **extra):
        if post.text != exp.text:
            self._foreign(ctx, [post], name)
            return
        _expect(post, exp, name, **extra)

    def step(self, ctx):
        k = ctx.kind
        if k not in self.own_kinds:
            return
        op, pre = ctx.op, ctx.pre
        if k == 'replace' and op['old'] == '':
            return   # left to C09
        if _may_be_rejected(ctx):
            ctx.world.count('skipped:count_below_minus_one_rejected')
            return
        _own_preamble(ctx, k)
        post = ctx.post
        w = ctx.world
        if len(set(pre.cells)) > 1:
            w.count('probe:non_uniform_receiver:' + k)
        if k == 'case':
            new_text = getattr(pre.text, op['how'])()
            if len(new_text) != len(pre.text):
                ctx.world.count('skipped:case_changes_length')
                return
            self._cmp(ctx, post, models.m_same_len_text(pre, new_text), 'case')
        elif k == 'assign':
            if not pre.text:
                # no last character whose settings could be extended: only the text is stated
                require(post.text == op['text'], 'assign.text', want=op['text'], got=post.text)
            else:
                _expect(post, models.m_assign(pre, op['text']), 'assign')
        elif k == 'strip':
            self._cmp(ctx, post, models.m_strip(pre, op['how'], op.get('chars')), 'strip')
        elif k == 'rmfix':
            self._cmp(ctx, post, models.m_rmfix(pre, op['how'], op['x']), 'rmfix')
        elif k in ('split', 'splitlines', 'partition'):
            if k == 'split':
                fn = strref.split if op['how'] == 'split' else strref.rsplit
                exps = models.m_pieces(pre, fn(pre.text, op.get('sep'), op.get('max', -1)))
            elif k == 'splitlines':
                exps = models.m_pieces(pre, strref.splitlines(pre.text, op.get('keep', False)))
            else:
                exps = models.m_partition(pre, op['how'], op['sep'])
            if post is None or [o.text for o in post] != [e.text for e in exps]:
                self._foreign(ctx, post or [], k)
                return
            cps = set(pre.change_points())
            if len(exps) >= 2 and any(pre.cells):
                w.count('probe:pieces_of_formatted_receiver')
            if k == 'split' and op.get('sep') and any(op['sep'] in e.text or (len(op['sep']) > 1 and op['sep'][1:] and e.text.startswith(op['sep'][1:])) for e in exps):
                w.count('probe:separator_text_recurs_in_piece')
            for j, (o, e) in enumerate(zip(post, exps)):
                _expect(o, e, k, piece=j)
        elif k == 'replace':
            key = repr(sorted(op['new'].items()))
            nv, no = ctx.operands[key]
            plain = isinstance(nv, str) and not isinstance(nv, AnsiStr)
            nm = len(strref.replace_matches(pre.text, op['old'], op.get('count', -1)))
            if nm >= 2:
                w.count('probe:replace_two_or_more_matches_%s' % ('plain' if plain else 'formatted_replacement'))
            # for replace the clauses determine the text as well: characters outside the matches unchanged and
            # every match replaced by the replacement -> a different text means some match was not (or not
            # properly) replaced
            pieces = getattr(ctx, 'c11_pieces', None)
            if pieces is None:
                _expect(post, models.m_replace(pre, op['old'], no, plain, op.get('count', -1)), 'replace')
            else:
                # a plain-str replacement with escape sequences: taken literally (text kept, settings of the first
                # character of the match) or parsed (its own sequences besides those settings, in either order)
                lit = getattr(no, 'literal', None) or no
                if compare(post, models.m_replace(pre, op['old'], lit, True, op.get('count', -1))) is not None:
                    exp = models.m_replace(pre, op['old'], no, plain, op.get('count', -1), pieces=pieces)
                    require(post.text == exp.text, 'replace.plain_with_escapes.text', want=exp.text, got=post.text)
                    for i, (got, want) in enumerate(zip(post.cells, exp.cells)):
                        require(Counter(got) == Counter(want), 'replace.plain_with_escapes.cell', index=i,
                                want=list(want), got=list(got))
        elif k == 'expandtabs':
            tab = op.get('tab', 8)
            exp = models.m_replace(pre, '\t', observe(' ' * tab), True, -1)
            _expect(post, exp, 'expandtabs')

    def nontrivial(self, ctx):
        k = ctx.kind
        if k not in self.own_kinds or ctx.pre is None:
            return False
        return len(set(ctx.pre.cells)) > 1 and ctx.exc is None


# =============================================================================== C12
class C12(Oracle):
    prop = 'C12'
    own_kinds = frozenset({'pad', 'fmt'})

    def step(self, ctx):
        k = ctx.kind
        if k not in self.own_kinds:
            return
        op, pre = ctx.op, ctx.pre
        if k == 'pad':
            if _may_be_rejected(ctx):
                ctx.world.count('skipped:negative_width_rejected')
                return
            _own_preamble(ctx, 'pad')
            ext = True if (pre.kind == A or op['how'] == 'zfill') else op['ext']
            fill = '0' if op['how'] == 'zfill' else op['fill']
            exp, left, right = models.m_pad(pre, op['how'], op['w'], fill, ext)
            w = ctx.world
            if left or right:
                fmtd = 'formatted' if any(pre.cells) else 'plain'
                w.count('probe:pad_%s_%s_%s' % ('left' if left else 'right_only', 'extend' if ext else 'no_extend', fmtd))
                if left != right and left and right:
                    w.count('probe:center_odd_padding')
                if fill in ':+-0123456789<>^':
                    w.count('probe:fill_is_grammar_character')
            if not pre.text:
                # no original character: which settings the fill takes is not stated; the text is
                require(ctx.post.text == exp.text, 'pad.text', want=exp.text, got=ctx.post.text, how=op['how'], width=op['w'])
                w.count('skipped:pad_cells_of_empty_receiver')
            else:
                _expect(ctx.post, exp, 'pad', how=op['how'], width=op['w'], extend=ext)
            _probe_closure(ctx.result, 'pad')
            return
        # fmt
        sp = op['spec']
        if sp is not None and 'raw' in sp:
            if sp['raw'] not in badops.BAD_STRING_SPECS:
                return   # errors in the ansi part are C09's business (the call may succeed on an empty string)
            # a spec outside the grammar raises ValueError
            require(isinstance(ctx.exc, ValueError), 'fmt.invalid_spec_raises_valueerror', spec=sp['raw'],
                    got=None if ctx.exc is None else '%s: %s' % (type(ctx.exc).__name__, ctx.exc))
            return
        _own_preamble(ctx, 'fmt')
        spec = ops.compose_spec(sp)
        # never changes s
        after = observe(ctx.recv)
        require(after.key() == pre.key(), 'fmt.receiver_unchanged', spec=spec, before=pre.to_json(), after=after.to_json())
        exp = models.m_spec(pre, sp or {})
        flags = tuple(op['flags']) if op.get('flags') is not None else None
        out = ctx.result
        require(isinstance(out, str), 'fmt.returns_str', got=type(out).__name__)
        # the same padding + apply_formatting done on a copy, in the documented order
        how, width, fill, ext, ansi = models.spec_reading(sp or {})
        has_ansi = bool(sp and sp.get('ansi'))
        c = AnsiString(ctx.recv)
        if not ext and has_ansi:
            c.apply_formatting(ops.ansi_part(sp['ansi']))
        if width:
            getattr(c, how)(width, fill, inplace=True, extend_formatting=ext)
        if ext and has_ansi:
            c.apply_formatting(ops.ansi_part(sp['ansi']))
        oc = observe(c)
        # ... must be the padded text with the ansi part gained exactly where the spec says
        require(oc.text == exp.text, 'fmt.text', spec=spec, want=exp.text, got=oc.text)
        for i in range(len(exp.text)):
            require(Counter(oc.cells[i]) == Counter(exp.cells[i]), 'fmt.cells', spec=spec, index=i,
                    want=list(exp.cells[i]), got=list(oc.cells[i]))
        # the output, read by the terminal, shows that copy
        if display.evaluable(oc):
            display.check_rendering(out, oc.text, display.expected_styles(oc.cells), flags, 'fmt.display')
        else:
            ctx.world.count('skipped:fmt_display_not_evaluable')
        if flags is None:
            want = str(c)
        else:
            want = c.to_str(optimize=flags[0], reset_start=flags[1], reset_end=flags[2])
        require(out == want, 'fmt.equals_pad_then_apply_on_copy', spec=spec, want=want, got=out)

    def nontrivial(self, ctx):
        k = ctx.kind
        if k == 'pad':
            return ctx.pre is not None and ctx.op['w'] > len(ctx.pre.text) and len(set(ctx.pre.cells)) > 1
        if k == 'fmt' and ctx.op['spec'] and 'raw' not in ctx.op['spec']:
            w = ctx.op['spec'].get('width') or 0
            return ctx.pre is not None and w > len(ctx.pre.text) and any(ctx.pre.cells)
        return False


def atoms_part_nonempty(sp):
    return bool(sp.get('ansi'))


# =============================================================================== C16
class C16(Oracle):
    prop = 'C16'
    own_kinds = frozenset({'fmatch', 'applymatch'})

    def before(self, ctx):
        if ctx.kind in ('fmatch', 'applymatch'):
            ctx.fmatch_twin = AnsiString(ctx.recv)

    def step_applymatch(self, ctx):
        _own_preamble(ctx, 'applymatch')
        op, pre = ctx.op, ctx.pre
        ms = list(itertools.islice(re.finditer(op['pat'], pre.text), op['nth'], op['nth'] + 1))
        if not ms:
            require(ctx.result is None, 'applymatch.no_match')
            return
        m = ms[0]
        ref = ctx.fmatch_twin
        a, b = m.start(op.get('group', 0)), m.end(op.get('group', 0))
        if a >= 0:
            ref.apply_formatting(ops.settings_arg(op), a, b)
        else:
            ctx.world.count('skipped:applymatch_group_did_not_participate')
            return
        ro, post = observe(ref), ctx.post
        require(post is not None and post.text == pre.text, 'applymatch.text')
        require(ro.cells == post.cells and ro.render == post.render, 'applymatch.equals_apply_formatting',
                span=[a, b], explicit=ro.to_json(), method=post.to_json())
        ctx.n_matches = 1 if b > a else 0

    def step(self, ctx):
        if ctx.kind == 'applymatch':
            # apply_formatting_for_match is not named by C16's statement: it stays in the workload (it is how
            # format_matching is built), its own results are not judged
            return
        if ctx.kind != 'fmatch':
            return
        _own_preamble(ctx, 'fmatch')
        op, pre, post = ctx.op, ctx.pre, ctx.post
        pat = op['pat'] if op['regex'] else re.escape(op['pat'])
        flags = 0 if op['case'] else re.IGNORECASE
        ms = list(re.finditer(pat, pre.text, flags))
        if op['count'] >= 0:
            ms = ms[:op['count']]
        w = ctx.world
        all_ms = list(re.finditer(pat, pre.text, flags))
        if any(m.end() == m.start() for m in all_ms):
            w.count('probe:empty_match')
        if any(x.end() == y.start() for x, y in zip(all_ms, all_ms[1:])):
            w.count('probe:adjacent_matches')
        if 0 <= op['count'] < len(all_ms):
            w.count('probe:count_cuts_matches')
        if not op['case'] and len(all_ms) != len(list(re.finditer(pat, pre.text))):
            w.count('probe:case_insensitivity_matters')
        if not op['regex'] and re.escape(op['pat']) != op['pat']:
            w.count('probe:plain_pattern_with_metacharacters')
        ref = ctx.fmatch_twin   # a copy of the receiver taken before the call
        fmt_args = ops.settings_args(op)
        for m in ms:
            if op['how'] == 'format':
                ref.apply_formatting(fmt_args, m.start(), m.end())
            else:
                sel = None if (op.get('none') or not fmt_args) else fmt_args
                ref.remove_formatting(sel, m.start(), m.end())
        ro = observe(ref)
        require(post.text == pre.text, 'fmatch.text', want=pre.text, got=post.text)
        require(ro.cells == post.cells, 'fmatch.equals_explicit_loop', matches=[[m.start(), m.end()] for m in ms],
                loop=ro.to_json(), method=post.to_json())
        require(ro.render == post.render, 'fmatch.equals_explicit_loop_render', want=ro.render, got=post.render)
        # "the same state": which characters are covered by one and the same setting object is part of it (removal and
        # concatenation match markers by object, so two values that differ in it behave differently later on:
        # seeded change S3-C16-1), and so is the library's own equality (the whole table by value)
        require(identity_pattern(ref) == identity_pattern(ctx.result), 'fmatch.equals_explicit_loop_spans',
                loop=identity_pattern(ref), method=identity_pattern(ctx.result), matches=[[m.start(), m.end()] for m in ms])
        if isinstance(ctx.result, AnsiString):
            require(ref == ctx.result and ctx.result == ref, 'fmatch.equals_explicit_loop_eq',
                    matches=[[m.start(), m.end()] for m in ms], loop=ro.to_json())
        inside = set()
        for m in ms:
            inside.update(range(m.start(), m.end()))
        for i in range(len(pre.text)):
            if i not in inside:
                require(sim(post.cells[i], pre.cells[i]), 'fmatch.outside_matches_unchanged', index=i,
                        want=list(pre.cells[i]), got=list(post.cells[i]))
        ctx.n_matches = len([m for m in ms if m.end() > m.start()])

    def nontrivial(self, ctx):
        return ctx.kind in ('fmatch', 'applymatch') and getattr(ctx, 'n_matches', 0) >= 1 and any(ctx.pre.cells)


# =============================================================================== C17
class C17(Oracle):
    prop = 'C17'
    own_kinds = frozenset({'find', 'query'})

    def step(self, ctx):
        k = ctx.kind
        if k == 'query' and ctx.op['q'] == 'settings_at':
            _own_preamble(ctx, 'settings_at')
            pre = ctx.pre
            n = len(pre.text)
            for i, (joined, lst) in zip(ctx.op['idx'], ctx.result):
                want = list(pre.cells[i]) if 0 <= i < n else []
                require(lst == want, 'settings_at.list', index=i, want=want, got=lst)
                require(joined == ';'.join(lst), 'settings_at.join', index=i, want=';'.join(lst), got=joined)
            return
        if k != 'find':
            return
        _own_preamble(ctx, 'find')
        op, pre = ctx.op, ctx.pre
        res = ctx.result
        require(isinstance(res, tuple) and len(res) == 2, 'find.shape', got=repr(res))
        fs, fe = res
        n = len(pre.text)
        sel = atoms.codes(op['st']) if op.get('st') is not None else []
        a_raw, b_raw = op['a'], op['b']
        # normalisation as the library documents it for these queries: negative counts from the end
        # (clamped at 0), None means 0 / len, values past the end refer to the end (slice rules)
        a = 0 if a_raw is None else (max(n + a_raw, 0) if a_raw < 0 else min(a_raw, n))
        b = n if b_raw is None else (max(n + b_raw, 0) if b_raw < 0 else min(b_raw, n))
        if (a_raw is not None and abs(a_raw) > n) or (b_raw is not None and abs(b_raw) > n):
            ctx.world.count('probe:bound_beyond_length')
        detail = dict(selection=sel, range=[a, b], reverse=op['rev'], got=[fs, fe], value=pre.to_json())
        if b < a:
            require(res == (None, None), 'find.end_before_start', **detail)
            return
        if a_raw is not None and b_raw is not None and b_raw < a_raw and res == (None, None):
            # "end < start" read on the bounds as given (e.g. start 3, end -1): admissible as well
            ctx.world.count('find_end_before_start_on_raw_bounds')
            return
        if not sel:
            require(res == (a, b), 'find.empty_settings_returns_range', **detail)
            return

        def has(i):
            return 0 <= i < n and all(c in pre.cells[i] for c in sel)
        # positions of the normalised range: [a, b) -- position b itself is the exclusive end
        have = [i for i in range(a, min(b, n)) if has(i)]
        if not have:
            # the range end itself may be reported when it carries them (inclusive end reading);
            # otherwise nothing must be found
            if fs is None:
                require(fe is None, 'find.none_pair', **detail)
                return
            require(fs == b and has(b), 'find.found_where_absent', **detail)
            return
        w = ctx.world
        w.count('probe:found_%s' % ('reverse' if op['rev'] else 'forward'))
        if have[0] == a and a > 0 and has(a - 1):
            w.count('probe:start_inside_a_run')
        if len(have) < min(b, n) - a:
            w.count('probe:selection_on_proper_subrange')
        require(fs is not None, 'find.missed', first=have[0], **detail)
        require(isinstance(fs, int) and a <= fs <= b and has(fs), 'find.start_has_all', **detail)
        if not op['rev']:
            require(fs == have[0], 'find.start_is_first', first=have[0], **detail)
            stop = fe if fe is not None else b
            require(fe is None or (isinstance(fe, int) and fs < fe <= b), 'find.end_in_range', **detail)
            for i in range(fs, min(stop, n)):
                require(has(i), 'find.run_has_all', index=i, **detail)
            if fe is not None:
                require(not has(fe), 'find.end_lacks_one', **detail)
            else:
                ctx.world.count('find_end_none')

    def nontrivial(self, ctx):
        if ctx.kind != 'find' or not ctx.op.get('st'):
            return False
        sel = atoms.codes(ctx.op['st'])
        flags = [all(c in cell for c in sel) for cell in ctx.pre.cells]
        return any(flags) and not all(flags)


# =============================================================================== C03
def c03_check_roundtrip(pre, post):
    require(post.text == pre.text, 'roundtrip.text', want=pre.text, got=post.text, rendering=pre.render)
    for i in range(len(pre.text)):
        require(codes.eff(post.cells[i]) == codes.eff(pre.cells[i]), 'roundtrip.style', index=i,
                rendering=pre.render, had=list(pre.cells[i]), got=list(post.cells[i]))


def c03_check_simplify(pre, post, r):
    """Returns False when the style clause was not evaluable (settings outside the numeric grammar)."""
    require(post.text == pre.text, 'simplify.text', want=pre.text, got=post.text)
    valid_cells = [tuple(c for c in cell if codes.valid_g(c)) for cell in pre.cells]
    evaluable = codes.all_wf(valid_cells)
    if evaluable:
        for i in range(len(pre.text)):
            require(codes.all_wf([post.cells[i]]) and codes.eff(post.cells[i]) == codes.eff(valid_cells[i]),
                    'simplify.style', index=i, had=list(pre.cells[i]), got=list(post.cells[i]))
    require(r.is_formatting_parsable() is True, 'simplify.parsable_afterwards', value=post.to_json())
    for i, cell in enumerate(post.cells):
        for c in cell:
            require(codes.valid_g(c) and codes.parsable_g(c), 'simplify.only_valid_parsable_settings', index=i,
                    setting=c)
    s1 = str(r) if post.kind != A else r.to_str()
    if post.kind == A:
        r2 = r.simplify()
        s2 = r2.to_str()
    else:
        r2 = r.copy()
        r2.simplify()
        s2 = str(r2)
    require(s2 == s1, 'simplify.idempotent', first=s1, second=s2)
    rt = str(AnsiString(s1))
    require(rt == s1, 'simplify.fixed_point', rendering=s1, reparsed=rt)
    return evaluable


class C03(Oracle):
    prop = 'C03'
    own_kinds = frozenset({'simplify', 'roundtrip'})

    def step(self, ctx):
        k = ctx.kind
        if k not in self.own_kinds:
            return
        pre = ctx.pre
        if '\x1b' in pre.text:
            ctx.world.count('skipped:esc_in_text')
            return
        w = ctx.world
        for cell in set(pre.cells):
            if len(cell) >= 2 and any(';' in c and codes.parsable_g(c) for c in cell):
                w.count('probe:multi_parameter_colour_next_to_other_setting')
            if codes.has_conflict(cell):
                w.count('probe:conflicting_or_shadowed_settings')
            if any(not codes.valid_g(c) for c in cell):
                w.count('probe:invalid_setting_present')
            elif any(not codes.parsable_g(c) for c in cell):
                w.count('probe:unparsable_setting_present')
        if k == 'roundtrip':
            if not codes.all_wf(pre.cells):
                ctx.world.count('skipped:roundtrip_not_wf')
                return
            _own_preamble(ctx, 'roundtrip')
            c03_check_roundtrip(pre, ctx.post)
            return
        # simplify
        _own_preamble(ctx, 'simplify')
        if not c03_check_simplify(pre, ctx.post, ctx.result):
            ctx.world.count('skipped:simplify_style_not_wf')

    def nontrivial(self, ctx):
        if ctx.kind not in self.own_kinds or ctx.pre is None or ctx.exc is not None:
            return False
        for cell in ctx.pre.cells:
            if len(cell) >= 2 and (codes.has_conflict(cell) or any(';' in c for c in cell)):
                return True
            if any(not codes.parsable_g(c) for c in cell):
                return True
        return False


# =============================================================================== C01
class C01(Oracle):
    prop = 'C01'
    own_kinds = frozenset()

    def begin(self, world):
        self.variant = world.knobs.get('dirty', 0)

    def step(self, ctx):
        if ctx.exc is not None or ctx.timeout:
            return
        w = ctx.world
        # every value this step touched, plus every value whose observation changed although the
        # step was not entitled to change it (the display invariant is world-wide)
        slots = set(ctx.entitled)
        for i, (b, a_) in enumerate(zip(ctx.pre_all, ctx.post_all)):
            if a_ is not None and a_.key() != b.key():
                slots.add(i)
        for slot in sorted(slots):
            o = ctx.post_all[slot]
            v = w.vals[slot]
            if o is None or o.kind == 'T':
                continue
            if not display.evaluable(o):
                w.count('skipped:display_not_evaluable')
                continue
            if len(o.text) > 320 or any(len(c) > 40 for c in o.cells):
                w.count('skipped:display_over_bounds')
                continue
            display.check_value(v, o, 'display', self.variant, w.stats)
            ctx.c01_checked = True
            if len(o.change_points()) >= 2 or any(codes.has_conflict(c) for c in o.cells):
                ctx.c01_nontrivial = True

    def nontrivial(self, ctx):
        return getattr(ctx, 'c01_nontrivial', False)


# =============================================================================== C08
def _is_plain(v):
    return isinstance(v, str) and not isinstance(v, AnsiStr)


class C08(Oracle):
    prop = 'C08'
    own_kinds = frozenset()

    def before(self, ctx):
        k = ctx.kind
        if ctx.ip and ctx.recv is not None and k not in ('assign', 'setansi', 'bad') and ops.has_inplace_form(k):
            try:
                ctx.c08_twin = ops.perform(ctx.op, ctx.recv, False, ctx.world.res)
            except Exception:
                ctx.c08_twin = None
            atoms.BUILT.clear()

    def step(self, ctx):
        w = ctx.world
        # arguments are not modified
        for obj, snap in ctx.built:
            require(atoms.snap_arg(obj) == snap, 'argument_modified', before=repr(snap), after=repr(atoms.snap_arg(obj)))
        # frame: nothing but the receiver of an in-place call (and the destination slot) changes
        for i, (b, a_) in enumerate(zip(ctx.pre_all, ctx.post_all)):
            if i in ctx.entitled:
                continue
            if a_ is None:
                raise Fail('frame.value_became_unobservable', slot=i, op=ctx.op, before=b.to_json(),
                           exc='%s: %s' % (type(ctx.sick[i]).__name__, ctx.sick[i]))
            if a_.key() != b.key():
                raise Fail('frame.bystander_changed', slot=i, before=b.to_json(), after=a_.to_json(),
                           render_before=b.render, render_after=a_.render,
                           role='operand' if any(('slot' in d and d['slot'] % len(w.vals) == i)
                                                 for d in engine_operand_descs(ctx.op)) else
                                ('receiver' if i == ctx.recv_slot else 'unrelated'))
        # non-in-place methods and every AnsiStr method leave the receiver unchanged
        if ctx.recv is not None and not ctx.ip and ctx.pre is not None and not getattr(ctx, 'bad_succeeded_in_place', False):
            if ctx.recv_post is None:
                raise Fail('receiver_became_unobservable', op=ctx.op, before=ctx.pre.to_json(),
                           exc='%s: %s' % (type(ctx.recv_post_exc).__name__, ctx.recv_post_exc))
            require(ctx.recv_post.key() == ctx.pre.key(), 'not_inplace_leaves_receiver_unchanged', op=ctx.op,
                    before=ctx.pre.to_json(), after=ctx.recv_post.to_json(), render_before=ctx.pre.render,
                    render_after=ctx.recv_post.render)
        if ctx.exc is not None or ctx.timeout or ctx.kind in ('bad',):
            return
        k = ctx.kind
        recv = ctx.recv
        if recv is not None and ops.has_inplace_form(k) and k not in ('assign', 'setansi') and kind_of(recv) == S:
            if ctx.ip:
                require(ctx.result is recv, 'inplace_returns_receiver', op=ctx.op)
                twin = getattr(ctx, 'c08_twin', None)
                if k not in ops._INPLACE_KW:
                    twin = None      # no inplace= variant: "copy() then mutate" is the harness's construction, not the library's
                if twin is not None and ctx.post_all[ctx.recv_slot] is not None:
                    to = observe(twin)
                    po = ctx.post_all[ctx.recv_slot]
                    require(to.text == po.text and to.cells == po.cells and to.render == po.render,
                            'inplace_equals_not_inplace', inplace=po.to_json(), not_inplace=to.to_json())
                    # "equal the non-in-place result": the library's own equality (the whole table by value); which
                    # characters share one setting OBJECT is not part of it
                    if isinstance(twin, AnsiString) and isinstance(recv, AnsiString):
                        require(twin == recv and recv == twin, 'inplace_equals_not_inplace_eq', inplace=po.to_json())
            else:
                require(ctx.result is not recv, 'not_inplace_returns_new', op=ctx.op)
        if k == 'join' and isinstance(ctx.result, AnsiString):
            for val, _o in ctx.operands.values():
                require(ctx.result is not val, 'result_is_an_operand', op=ctx.op)
        if ops.result_shape(ctx.op) == 'values' and ctx.result is not None:
            # results are not aliased: the pieces of one call are distinct objects
            its = [x for x in ctx.result if isinstance(x, AnsiString)]
            for i1 in range(len(its)):
                for i2 in range(i1 + 1, len(its)):
                    require(its[i1] is not its[i2], 'result_pieces_alias_each_other', op=ctx.op, pieces=[i1, i2])
        if ops.result_shape(ctx.op) in ('value', 'values') and recv is not None and not ctx.ip:
            items = [ctx.result] if ops.result_shape(ctx.op) == 'value' else list(ctx.result or [])
            for it in items:
                if isinstance(it, (AnsiString, AnsiStr)):
                    for j, wv in enumerate(w.vals):
                        if wv is it and j != ctx.stored and isinstance(it, AnsiString):
                            raise Fail('result_aliases_pool_value', slot=j, op=ctx.op)
        if k == 'conv' and ctx.post is not None:
            src = ctx.pre
            if ctx.op.get('st') is None:
                require(ctx.post.text == src.text and ctx.post.cells == src.cells, 'copy_equal_settings',
                        src=src.to_json(), copy=ctx.post.to_json())
                require(ctx.post.render == src.render, 'copy_renders_identically', want=src.render, got=ctx.post.render)
                if kind_of(ctx.result) == kind_of(recv):
                    require(ctx.result == recv and recv == ctx.result, 'copy_compares_equal', src=src.to_json())
        # a settings list stays the caller's: changing it after the call changes no value
        lists = []

        def walk(o):
            if isinstance(o, list):
                lists.append(o)
            if isinstance(o, (list, tuple)):
                for x in o:
                    walk(x)
        for obj, _ in ctx.built:
            walk(obj)
        if lists and ctx.exc is None and not ctx.timeout:
            for lst in lists:
                lst.append('[9')
                lst.reverse()
                del lst[1:]
            w.count('probe:settings_list_changed_after_call')
            vals = list(enumerate(w.vals))
            if isinstance(ctx.result, (AnsiString, AnsiStr)) and not any(v is ctx.result for _, v in vals):
                vals.append((None, ctx.result))
            for i, v in vals:
                was = ctx.post_all[i] if i is not None else ctx.post
                if was is None or _is_plain(v) or isinstance(was, list):
                    continue
                try:
                    now = observe(v)
                except Exception as e:
                    raise Fail('value_unobservable_after_settings_list_changed', slot=i, op=ctx.op,
                               exc='%s: %s' % (type(e).__name__, e))
                require(now.key() == was.key(), 'value_changed_with_the_callers_settings_list', slot=i, op=ctx.op,
                        before=was.to_json(), after=now.to_json())

    def nontrivial(self, ctx):
        if ctx.exc is not None or not ctx.ip or ctx.recv_slot is None:
            return False
        b, a_ = ctx.pre_all[ctx.recv_slot], ctx.post_all[ctx.recv_slot]
        if a_ is None or a_.key() == b.key():
            return False
        return sum(1 for o in ctx.post_all if o is not None and o.kind != 'T' and o.text) >= 2


# =============================================================================== C09
_SELF_CHECK_MSG = 'could not remove setting'


class C09(Oracle):
    prop = 'C09'
    own_kinds = frozenset()
    use_clock = True
    with_assertions = True

    def before(self, ctx):
        if (ctx.kind == 'bad' or (ctx.kind == 'fmt' and 'raw' in (ctx.op.get('spec') or {}))) and ctx.recv is not None:
            ctx.c09_renders_before = renders8(ctx.recv)
            # hidden state (markers at or beyond the end) shows when something is appended; read without changing
            try:
                ctx.c09_snapshot = [observe(ctx.recv + 'Z').key(), observe(ctx.recv + AnsiString('Z', '34')).key()]
            except Exception:
                ctx.c09_snapshot = None

    def step(self, ctx):
        w = ctx.world
        k = ctx.kind
        require(not ctx.timeout, 'terminates', op=ctx.op, events=ctx.events)
        if ctx.exc is not None:
            e = ctx.exc
            msg = str(e)
            require(not (isinstance(e, ValueError) and _SELF_CHECK_MSG in msg), 'self_check_failed_inside_operation',
                    op=ctx.op, exc=msg)
            is_bad_spec = k == 'fmt' and ctx.op.get('spec') is not None and 'raw' in ctx.op['spec']
            if k == 'bad' or is_bad_spec:
                allowed = badops.allowed(ctx.op) if k == 'bad' else badops.TV
                require(isinstance(e, allowed), 'documented_error_type', op=ctx.op,
                        got='%s: %s' % (type(e).__name__, msg), allowed=[t.__name__ for t in allowed])
                # after a raised error the receiver is unchanged
                b, a_ = ctx.pre_all[ctx.recv_slot], ctx.post_all[ctx.recv_slot]
                require(a_ is not None and a_.key() == b.key(), 'failed_call_leaves_receiver_unchanged', op=ctx.op,
                        before=b.to_json(), after=None if a_ is None else a_.to_json(),
                        render_before=b.render, render_after=None if a_ is None else a_.render)
                rb, ra = getattr(ctx, 'c09_renders_before', None), renders8(w.vals[ctx.recv_slot])
                require(rb is None or rb == ra, 'failed_call_leaves_rendering_unchanged', op=ctx.op, before=rb, after=ra)
                eqb = getattr(ctx, 'c09_snapshot', None)
                if eqb is not None:
                    now = [observe(ctx.recv + 'Z').key(), observe(ctx.recv + AnsiString('Z', '34')).key()]
                    require(now == eqb, 'failed_call_leaves_appended_text_unchanged', op=ctx.op,
                            before=repr(eqb[0][1:3]), after=repr(now[0][1:3]))
            elif _may_be_rejected(ctx):
                w.count('optional_input_rejected')
            else:
                # an ordinary operation with documented argument types and values raised
                raise Fail('successful_history_then_operation_raises', op=ctx.op,
                           exc='%s: %s' % (type(e).__name__, msg))
        require(ctx.result_sick is None, 'result_fails_self_check', op=ctx.op,
                exc=None if ctx.result_sick is None else '%s: %s' % (type(ctx.result_sick).__name__, ctx.result_sick))
        # health of the whole pool
        for i, o in enumerate(ctx.post_all):
            if o is None:
                e = ctx.sick[i]
                raise Fail('value_fails_self_check', slot=i, op=ctx.op, before=ctx.pre_all[i].to_json(),
                           exc='%s: %s' % (type(e).__name__, e))
        for i in sorted(ctx.entitled):
            v = w.vals[i]
            if _is_plain(v):
                continue
            o = ctx.post_all[i]
            try:
                renders8(v)
                n = len(o.text)
                a = ctx.step % (n + 1)
                v[a:]
                v[:a]
                v[a:n + 3]
                if n:
                    v[-1]
                    v[a % n]
                    lst = list(v)
                    if len(lst) != n:
                        raise Fail('health.iter_count', want=n, got=len(lst))
                p = v + 'Z'
                observe(p)
                q = AnsiString('Z', 'f:bold'[2:]) + v
                observe(q)
                (v + v)
                observe(v + v)
                v.find_settings('bold')
                v.is_formatting_valid()
                v.is_formatting_parsable()
                v == v
            except Fail:
                raise
            except Exception as e:
                raise Fail('later_query_render_slice_or_concat_raises', slot=i, op=ctx.op, value=o.to_json(),
                           exc='%s: %s' % (type(e).__name__, e))

    def nontrivial(self, ctx):
        if ctx.kind == 'bad' and ctx.exc is not None and ctx.pre is not None:
            return len(ctx.pre.change_points()) >= 2
        return False


def renders8(v):
    return [v.to_str(optimize=o, reset_start=rs, reset_end=re_) for (o, rs, re_) in display.FLAG_COMBOS]


# =============================================================================== C13
class C13(Oracle):
    prop = 'C13'
    own_kinds = frozenset()
    TWIN_KINDS = frozenset(ops.RECV_KINDS | ops.NO_RECV) - {'assign', 'setansi', 'bad', 'roundtrip'}

    def before(self, ctx):
        op, k = ctx.op, ctx.kind
        if k not in self.TWIN_KINDS:
            return
        if k == 'conv' and op['how'] == 'copy':
            return
        if k == 'query' and op['q'] == 'eq':
            return   # == is defined per class (table equality vs rendering equality)
        if k == 'pad' and op['how'] != 'zfill' and not op['ext']:
            return   # AnsiStr has no extend_formatting parameter: not the same operation
        res = ctx.world.res
        out = []
        for cls in (AnsiString, AnsiStr):
            try:
                if k in ('new', 'join', 'conv'):
                    o2 = dict(op)
                    o2['cls'] = S if cls is AnsiString else A
                    r = ops.perform(o2, ctx.recv, False, res)
                else:
                    r = ops.perform(op, cls(ctx.recv), False, res)
                out.append((r, None))
            except Exception as e:
                out.append((None, e))
        atoms.BUILT.clear()
        ctx.c13_twin = tuple(out)
        ctx.c13_spec = op.get('twin_spec')

    def step(self, ctx):
        w = ctx.world
        # payload == rendering for every AnsiStr in the pool
        for i, v in enumerate(w.vals):
            if isinstance(v, AnsiStr):
                p = str.__str__(v)
                require(p == v.to_str() and ('%s' % v) == p and str(v) == p, 'payload_equals_rendering', slot=i,
                        payload=p, rendering=v.to_str())
        tw = getattr(ctx, 'c13_twin', None)
        if tw is None:
            return
        (s_res, s_exc), (a_res, a_exc) = tw
        if s_exc is not None or a_exc is not None:
            # both raise or both succeed (which of the documented error types is raised is not compared)
            require((s_exc is None) == (a_exc is None), 'twin.same_outcome', op=ctx.op,
                    ansistring=None if s_exc is None else '%s: %s' % (type(s_exc).__name__, s_exc),
                    ansistr=None if a_exc is None else '%s: %s' % (type(a_exc).__name__, a_exc))
            return
        shape = ops.result_shape(ctx.op)
        if ctx.kind == 'applymatch' and s_res is None and a_res is None:
            return   # the pattern has no such match: nothing was called
        if shape == 'value':
            pairs = [(s_res, a_res)]
        elif shape == 'values':
            require(isinstance(a_res, (list, tuple)) and len(list(a_res)) == len(list(s_res)), 'twin.count', op=ctx.op)
            pairs = list(zip(list(s_res), list(a_res)))
        elif shape == 'str':
            require(s_res == a_res, 'twin.rendering', op=ctx.op, ansistring=s_res, ansistr=a_res)
            return
        else:
            if not (ctx.kind == 'query' and ctx.op.get('q') == 'repr'):      # repr() is not part of any statement
                require(s_res == a_res, 'twin.query_result', op=ctx.op, ansistring=repr(s_res), ansistr=repr(a_res))
            return
        for j, (sv, av) in enumerate(pairs):
            require(isinstance(av, AnsiStr), 'twin.result_is_ansistr', op=ctx.op, item=j, got=type(av).__name__)
            so, ao = observe(sv), observe(av)
            require(so.text == ao.text, 'twin.text', op=ctx.op, item=j, ansistring=so.text, ansistr=ao.text)
            require(so.cells == ao.cells, 'twin.settings', op=ctx.op, item=j, ansistring=so.to_json(), ansistr=ao.to_json())
            require(so.render == ao.render, 'twin.str', op=ctx.op, item=j, ansistring=so.render, ansistr=ao.render)
            for (o, rs, re_) in display.FLAG_COMBOS:
                x = sv.to_str(optimize=o, reset_start=rs, reset_end=re_)
                y = av.to_str(optimize=o, reset_start=rs, reset_end=re_)
                require(x == y, 'twin.to_str', op=ctx.op, flags=[o, rs, re_], ansistring=x, ansistr=y)
            spec = getattr(ctx, 'c13_spec', None)
            if spec is not None:
                try:
                    x = format(sv, spec)
                except Exception as e:
                    x = Exception
                try:
                    y = format(av, spec)
                except Exception as e:
                    y = Exception
                require(x == y, 'twin.format', op=ctx.op, spec=spec, ansistring=repr(x), ansistr=repr(y))
            p = str.__str__(av)
            require(p == av.to_str(), 'payload_equals_rendering', payload=p, rendering=av.to_str())
        ctx.c13_nontrivial = any(any(observe(sv).cells) for sv, _ in pairs)

    def nontrivial(self, ctx):
        return getattr(ctx, 'c13_nontrivial', False)


# =============================================================================== C15
class C15(Oracle):
    prop = 'C15'
    own_kinds = frozenset()

    def begin(self, world):
        self.order = world.knobs.get('flag_order', 0)

    def _check_setting(self, s, ctx, where):
        code = str(s)
        order = (self.order + len(code) + ctx.step) % 3
        if order == 0:
            v = s.valid
            p = s.parsable
        elif order == 1:
            p = s.parsable
            v = s.valid
        else:
            v = s.valid
            v2 = s.valid
            p = s.parsable
            p2 = s.parsable
            require(v == v2 and p == p2, 'flags.stable_on_repeat', setting=code)
        require(v == codes.valid_g(code), 'flags.valid_exact', setting=code, want=codes.valid_g(code), got=v, where=where)
        if codes.parsable_gating(code):
            require(p == codes.parsable_g(code), 'flags.parsable_exact', setting=code, want=codes.parsable_g(code), got=p,
                    where=where)
        else:
            ctx.world.count('skipped:parsable_not_gated')
        require(s.valid == v and s.parsable == p, 'flags.stable_on_repeat', setting=code)
        return v, p

    def step(self, ctx):
        if ctx.exc is not None or ctx.timeout:
            return
        w = ctx.world
        # guaranteed-good forms
        if ctx.op.get('st') is not None and ctx.kind in ('new', 'apply', 'conv'):
            ids = atoms.flatten(ctx.op['st'])
            if ids and all(atoms.CATALOGUE[i].guaranteed for i in ids):
                probe = AnsiString('x', atoms._build(ctx.op['st']))
                for s in probe.ansi_settings_at(0):
                    require(s.valid and s.parsable, 'guaranteed_forms_valid_and_parsable', setting=str(s), atoms=ids)
                require(probe.is_formatting_valid() and probe.is_formatting_parsable(),
                        'guaranteed_forms_valid_and_parsable', atoms=ids)
        # generator-made setting texts over the byte alphabet
        for text in ctx.op.get('probe_settings', ()):
            if text:
                self._check_setting(AnsiSetting(text), ctx, 'probe')
                ctx.world.count('probe_settings')
        for slot in sorted(ctx.entitled):
            v = w.vals[slot]
            o = ctx.post_all[slot]
            if o is None or o.kind == 'T':
                continue
            all_v, all_p = True, True
            seen = []
            verbatim_in_use = False
            for i in range(len(o.text)):
                for s in v.ansi_settings_at(i):
                    if any(s is t for t in seen):
                        continue
                    seen.append(s)
                    sv, sp = self._check_setting(s, ctx, 'slot %d index %d' % (slot, i))
                    all_v &= sv
                    all_p &= sp
                    if not codes.parsable_g(str(s)):
                        verbatim_in_use = True
            if True:
                fv, fp = v.is_formatting_valid(), v.is_formatting_parsable()
                require(fv == all_v, 'is_formatting_valid_is_conjunction', slot=slot, want=all_v, got=fv, value=o.to_json())
                gated = all(codes.parsable_gating(c) for cell in o.cells for c in cell)
                if gated:
                    require(fp == all_p, 'is_formatting_parsable_is_conjunction', slot=slot, want=all_p, got=fp,
                            value=o.to_json())
            strippable = all(0x20 <= ord(ch) <= 0x3F for cell in o.cells for c in cell for ch in c)
            if all_v and not strippable:
                # "valid" only excludes 0x40-0x7E; bytes outside 0x20-0x3F (DEL, controls, non-ASCII) are
                # not parameter bytes, so the stripping clause is not evaluated for them (DESIGN 7.3)
                w.count('skipped:strip_non_parameter_bytes')
            if all_v and strippable and '\x1b' not in o.text:
                optimizable = v.is_optimizable()
                for (op_, rs, re_) in display.FLAG_COMBOS:
                    r = v.to_str(optimize=op_, reset_start=rs, reset_end=re_)
                    stripped = re.sub('\x1b\\[[\x30-\x3f\x20-\x2f]*m', '', r)
                    require(stripped == o.text, 'valid_formatting_strips_to_base_str', flags=[op_, rs, re_], rendering=r,
                            stripped=stripped, want=o.text)
                    if not op_ or not optimizable:
                        seqs = re.findall('\x1b\\[([\x30-\x3f\x20-\x2f]*)m', r)
                        for cell in set(o.cells):
                            for c in cell:
                                if codes.parsable_g(c):
                                    continue    # may stem from a name or an int; the clause speaks of verbatim settings
                                ok = any((';' + c + ';') in (';' + q + ';') for q in seqs)
                                require(ok, 'verbatim_setting_appears_intact', setting=c, flags=[op_, rs, re_], rendering=r)
                # a character whose ONLY setting is a verbatim spelling of a known set code cannot be overridden
                # by anything: that setting appears intact in every rendering, optimised or not
                lone = set()
                for cell in set(o.cells):
                    if len(cell) == 1:
                        tok = cell[0].split(';')[0].strip()
                        if tok.isascii() and tok.isdigit() and (int(tok) in T.SET or int(tok) in T.EXTENDED) and s_parsable(v, cell[0]):
                            lone.add(cell[0])
                for (op_, rs, re_) in display.FLAG_COMBOS:
                    if not lone:
                        break
                    r = v.to_str(optimize=op_, reset_start=rs, reset_end=re_)
                    seqs = re.findall('\x1b\\[([\x30-\x3f\x20-\x2f]*)m', r)
                    for c in sorted(lone):
                        require(any((';' + c + ';') in (';' + q + ';') for q in seqs), 'lone_set_code_setting_is_rendered',
                                setting=c, flags=[op_, rs, re_], rendering=r)
                w.count('strip_checks')
            if verbatim_in_use:
                ctx.c15_nontrivial = True

    def nontrivial(self, ctx):
        return getattr(ctx, 'c15_nontrivial', False)


def s_parsable(v, code):
    """Does the library itself call this setting parsable (then it takes the optimised path)?"""
    for i in range(len(v.base_str)):
        for x in v.ansi_settings_at(i):
            if str(x) == code:
                return bool(x.parsable)
    return False


ORACLES = {c.prop: c for c in (C01, C03, C04, C05, C06, C07, C08, C09, C11, C12, C13, C15, C16, C17)}
