"""Failing-call injection: calls that the documentation says must be rejected (or that str itself
rejects), aimed at values with real state.  This is the fault side of the simulation.

Each entry: name -> (callable(recv, variant, world) performing the call, allowed exception types).
A call that does not raise is a *successful* call (allowed by C09: "either succeeds or raises only
the documented error type"); it is then judged like any other step by the health invariant.
"""
import re

from . import lib

AnsiString, AnsiStr = lib.AnsiString, lib.AnsiStr
TV = (TypeError, ValueError)


class NotApplicable(Exception):
    pass


def _is_s(v):
    return isinstance(v, AnsiString)


def _self_list():
    x = ['bold']
    x.append(x)
    return x


def _deep_self_list():
    x = ['bold']
    y = ['red', x]
    x.append([y])
    return x


_BAD_SETTINGS = [
    'not_a_name', -1, '-1', 'rgb()', 'bg_rgb(1,2)', 'dul_rgb(1,2,X)', 'color256()', 'ul_colour256(W)',
    'invalid data', 'bold;nope', ['red', -5], 'rgb(1,2,3,4)', '1;x', [['bold', ['italic', 'zzz']]],
    ('red', ['bold', 'rgb(256,x)']), ['[1', 'fg_colour256(z)'], 'rgb(0x1G)', [31, 'bg_rgb(1;2;3)'],
]


def bad_setting(variant):
    n = len(_BAD_SETTINGS) + 2
    v = variant % n
    if v == n - 1:
        return _self_list()
    if v == n - 2:
        return _deep_self_list()
    return _BAD_SETTINGS[v]


def _inplace_kw(v, ip):
    return {} if isinstance(v, AnsiStr) else {'inplace': bool(ip)}


def _apply_bad(v, var, w, op):
    a, b = op.get('a', 0), op.get('b')
    return v.apply_formatting(bad_setting(var), a, b, op.get('top', True))


def _remove_bad(v, var, w, op):
    return v.remove_formatting(bad_setting(var), op.get('a', 0), op.get('b'))


def _find_bad(v, var, w, op):
    return v.find_settings(bad_setting(var), op.get('a', 0), op.get('b'))


def _varargs(var):
    """The bad setting alone, or among good ones given as separate positional arguments (all of them have to be
    accepted before anything is changed)."""
    bad = bad_setting(var)
    return [(bad,), ('bold', bad), (bad, 'red'), ('[1', 'red', bad)][(var // 23) % 4]


def _fmatch_bad(v, var, w, op):
    return v.format_matching(op.get('pat', 'a'), *_varargs(var))


def _unfmatch_bad(v, var, w, op):
    return v.unformat_matching(op.get('pat', 'a'), *_varargs(var))


def _ctor_bad_settings(v, var, w, op):
    cls = AnsiStr if op.get('cls') == 'A' else AnsiString
    return cls(v, *_varargs(var))


def _ctor_type(v, var, w, op):
    cls = AnsiStr if op.get('cls') == 'A' else AnsiString
    return cls([5, None, b'x', 1.5, ['a'], object()][var % 6])


def _fillchar(v, var, w, op):
    how = ['ljust', 'rjust', 'center'][var % 3]
    fill = ['', 'ab', '  ', 'xyz'][(var // 3) % 4]
    return getattr(v, how)(op.get('w', 9), fill, **_inplace_kw(v, op.get('ip')))


def _width_type(v, var, w, op):
    how = ['ljust', 'rjust', 'center', 'zfill'][var % 4]
    wd = ['5', None, 2.5, [3]][(var // 4) % 4]
    return getattr(v, how)(wd)


def _step(v, var, w, op):
    return v[slice(op.get('a'), op.get('b'), [2, -1, 0, 3][var % 4])]


def _index_oor(v, var, w, op):
    n = len(v)
    return v[[n, -n - 1, n + 7, -n - 9, 10 ** 9, -10 ** 9][var % 6]]


def _getitem_type(v, var, w, op):
    return v[['a', 1.5, None, (1, 2), b'1'][var % 5]]


_BAD_SPECS = ['djhfjd', '^+10', '^ 10', '<5>', '10.5', '<<<', '>>5x', 'a-b>3', 'ab5', '5e',
              ':bogus', '<5:nope', ':rgb()', '>3:-1', '\u00e9\u00e9', '5:bold;;zz', '^7:not a name',
              '5\n', '<5\n', '*>7\n', '\n\n']


# outside the [fill][+|-][<|>|^][width] grammar of the string-format part (C12's ValueError clause)
BAD_STRING_SPECS = [x for x in _BAD_SPECS if ':' not in x and x != '^+10']


def _spec(v, var, w, op):
    spec = _BAD_SPECS[var % len(_BAD_SPECS)]
    if (var // len(_BAD_SPECS)) % 2:
        return v.to_str(spec, reset_start=True)
    return format(v, spec)


def _str_index(v, var, w, op):
    return [v.index, v.rindex][var % 2](op.get('sub', '\x00zz'))


def _str_arg_type(v, var, w, op):
    m = ['count', 'find', 'rfind', 'index', 'rindex', 'endswith'][var % 6]
    return getattr(v, m)([5, None, b'a', 1.5][(var // 6) % 4])


def _split_empty(v, var, w, op):
    return [v.split, v.rsplit, v.partition, v.rpartition][var % 4]('')


def _split_type(v, var, w, op):
    return [v.split, v.rsplit, v.partition, v.rpartition][var % 4]([5, b'a', 1.5][(var // 4) % 3])


def _add_type(v, var, w, op):
    o = [5, None, b'x', 1.5, ['a'], object()][var % 6]
    if (var // 6) % 2 and _is_s(v) and op.get('ip'):
        v += o
        return v
    return v + o


def _join_type(v, var, w, op):
    cls = AnsiStr if op.get('cls') == 'A' else AnsiString
    o = [5, None, b'x', 1.5][var % 4]
    if (var // 4) % 2:
        return cls.join(o, v)
    return cls.join(v, 'x', o)


def _replace_type(v, var, w, op):
    a = [(5, 'x'), (None, 'x'), (op.get('old', 'a'), 5), (op.get('old', 'a'), None), (b'a', 'x'),
         (op.get('old', 'a'), b'x')][var % 6]
    return v.replace(a[0], a[1], **_inplace_kw(v, op.get('ip')))


def _strip_type(v, var, w, op):
    return getattr(v, ['strip', 'lstrip', 'rstrip'][var % 3])([5, 1.5, b'a'][(var // 3) % 3], **_inplace_kw(v, op.get('ip')))


def _fix_type(v, var, w, op):
    return getattr(v, ['removeprefix', 'removesuffix'][var % 2])([5, None, b'a'][(var // 2) % 3], **_inplace_kw(v, op.get('ip')))


def _assign_type(v, var, w, op):
    if not _is_s(v):
        raise NotApplicable()
    return v.assign_str([5, None, 1.5, ['a']][var % 4])


def _fmatch_type(v, var, w, op):
    m = [v.format_matching, v.unformat_matching][var % 2]
    return m([5, None, b'a', ['a']][(var // 2) % 4], 'red')


def _settings_at_type(v, var, w, op):
    return [v.ansi_settings_at, v.settings_at][var % 2](['a', None, [1]][(var // 2) % 3])


def _expandtabs_type(v, var, w, op):
    return v.expandtabs(['a', None, 1.5][var % 3], **_inplace_kw(v, op.get('ip')))


def _apply_idx_type(v, var, w, op):
    a = [('a', None), (0, 'b'), (1.5, None), (0, 2.5), ([1], None)][var % 5]
    if (var // 5) % 2:
        return v.remove_formatting('red', a[0], a[1])
    return v.apply_formatting('red', a[0], a[1])


def _setting_ctor(v, var, w, op):
    return lib.AnsiSetting([5.5, None, '', [], b'1', {1}][var % 6])


def _clip_type(v, var, w, op):
    a = [('a', None), (None, 'b'), (1.5, 2)][var % 3]
    return v.clip(a[0], a[1], **_inplace_kw(v, op.get('ip')))


def _find_idx_type(v, var, w, op):
    a = [('a', None), (0, 'b'), (1.5, None)][var % 3]
    return v.find_settings('red', a[0], a[1])


def _case_extra_arg(v, var, w, op):
    if not _is_s(v):
        raise NotApplicable()
    return getattr(v, ['lower', 'upper', 'title'][var % 3])('x', 'y')


# ---- huge arguments (C09's quantifier: "zero and huge widths, indices far outside the text").  The allowed
# error is "the error str itself raises for the same call"; the widths are chosen where that error does
# not depend on how much memory the machine has (beyond sys.maxsize: OverflowError in str methods,
# ValueError "Too many decimal digits" in str.__format__).
_HUGE = [10 ** 30, 2 ** 64 + 5, 2 ** 200, 10 ** 19]


def _huge_width(v, var, w, op):
    how = ['ljust', 'rjust', 'center', 'zfill'][var % 4]
    wd = _HUGE[(var // 4) % len(_HUGE)]
    kw = _inplace_kw(v, op.get('ip'))
    if _is_s(v) and how != 'zfill' and (var // 16) % 2:
        kw['extend_formatting'] = False
    if how == 'zfill':
        return v.zfill(wd, **kw)
    return getattr(v, how)(wd, ['*', ' ', '0'][(var // 32) % 3], **kw)


def _huge_spec_width(v, var, w, op):
    wd = _HUGE[var % len(_HUGE)]
    spec = ['%d', '>%d', '*<%d', '.^%d', '*-^%d:bold', '<%d:red', ' +>%d'][(var // 4) % 7] % wd
    if (var // 28) % 2:
        return v.to_str(spec, reset_start=True)
    return format(v, spec)


def _huge_tabsize(v, var, w, op):
    return v.expandtabs(_HUGE[var % len(_HUGE)], **_inplace_kw(v, op.get('ip')))


_BAD_REGEX = ['(', '[a', 'a**', '(?P<x', '\\', '*a', 'a{2,1}', '(?<=a+)b', ')', '(?P<n>a)(?P<n>b)', '\\1(a)?(', '(?z)']


def _bad_regex(v, var, w, op):
    """A pattern the re module rejects: format_matching / unformat_matching must fail the way re.compile does
    (re.error, the error Python itself raises for that pattern) before anything is changed."""
    pat = _BAD_REGEX[var % len(_BAD_REGEX)]
    m = [v.format_matching, v.unformat_matching][(var // len(_BAD_REGEX)) % 2]
    kw = {'regex': True}
    if (var // 24) % 2:
        kw['match_case'] = True
    if (var // 48) % 2:
        kw['count'] = 2
    return m(pat, 'red', **kw)


def _encode_bad(v, var, w, op):
    """Unknown codec / error handler, or a codec that cannot represent the text: str.encode raises LookupError or
    UnicodeEncodeError (a ValueError) for the same call (or succeeds)."""
    a = [('no-such-codec',), ('utf-8', 'no-such-handler'), ('ascii',), ('latin-1', 'strict'), ('utf-16', 'strict')][var % 5]
    return v.encode(*a)


IDX = (IndexError,)
# str raises OverflowError or MemoryError for an unbuildable width depending only on its magnitude
# (beyond / below sys.maxsize); center() halves the width first, so the two are not told apart here
OVF = (OverflowError, MemoryError, TypeError, ValueError)   # TypeError/ValueError are documented types for any call

TABLE = {
    'apply_bad_setting': (_apply_bad, TV),
    'remove_bad_setting': (_remove_bad, TV),
    'find_bad_setting': (_find_bad, TV),
    'fmatch_bad_setting': (_fmatch_bad, TV),
    'unfmatch_bad_setting': (_unfmatch_bad, TV),
    'ctor_bad_setting': (_ctor_bad_settings, TV),
    'fillchar': (_fillchar, TV),
    'slice_step': (_step, TV),
    'index_out_of_range': (_index_oor, IDX),
    'format_spec': (_spec, TV),
    'index_absent': (_str_index, TV),
    'split_empty_sep': (_split_empty, TV),
    'huge_width': (_huge_width, OVF),
    'huge_spec_width': (_huge_spec_width, TV),
    'huge_tabsize': (_huge_tabsize, OVF),
    'bad_regex': (_bad_regex, (re.error, TypeError, ValueError)),
    'encode_bad': (_encode_bad, (LookupError, TypeError, ValueError)),
}
NAMES = sorted(TABLE)

# calls whose in-place form exists: a raised error must leave the receiver unchanged
MAY_MUTATE = {'apply_bad_setting', 'remove_bad_setting', 'fmatch_bad_setting', 'unfmatch_bad_setting', 'fillchar',
              'huge_width', 'huge_tabsize', 'bad_regex'}

ALWAYS_IN_PLACE = {'apply_bad_setting', 'remove_bad_setting', 'fmatch_bad_setting', 'unfmatch_bad_setting', 'bad_regex'}

# Wrong-*type* arguments are deliberately not injected: C09 quantifies over "arguments of the
# documented types", so nothing is promised for them (the helper functions above that build such
# calls are kept only for manual experiments and are not in TABLE).


def run(op, recv, world):
    fn, _ = TABLE[op['what']]
    return fn(recv, op.get('var', 0), world, op)


def allowed(op):
    return TABLE[op['what']][1]
