"""Self-tests of the machinery itself.

  python -B -m sim.selftest determinism [--seeds 400] [--props C05,C09]
      every run index is executed twice in this interpreter and once more in fresh interpreters
      under PYTHONHASHSEED=0 and =12345; op lists, observation digests and violations must be
      identical.  Also the aggregated check digest with 1 and with 16 workers.
  python -B -m sim.selftest terminal
      sanity of the terminal stub on hand-written sequences.
"""
import argparse
import hashlib
import json
import os
import subprocess
import sys

ROOT = os.path.dirname(os.path.dirname(os.path.abspath(__file__)))
sys.path.insert(0, ROOT)


def run_digests(props, seeds, verif_seed=0, long_every=10):
    from sim import run
    out = {}
    for prop in props:
        h = hashlib.sha256()
        for k in range(seeds):
            r = run.simulate(prop, verif_seed, k, long_run=(k % long_every == long_every - 1))
            h.update(json.dumps([k, r.knobs, r.history, r.digest, r.steps,
                                 None if r.violation is None else [r.violation.predicate, r.violation.step]],
                                sort_keys=True).encode())
        out[prop] = h.hexdigest()[:20]
    return out


def determinism(props, seeds):
    a = run_digests(props, seeds)
    b = run_digests(props, seeds)
    ok = True
    if a != b:
        print('NONDETERMINISM within one interpreter:', a, b)
        ok = False
    for hs in ('0', '12345'):
        env = dict(os.environ, PYTHONHASHSEED=hs)
        p = subprocess.run([sys.executable, '-B', '-m', 'sim.selftest', '_digests', '--seeds', str(seeds), '--props',
                            ','.join(props)], cwd=ROOT, env=env, capture_output=True, text=True)
        try:
            c = json.loads(p.stdout.strip().splitlines()[-1])
        except Exception:
            print('child failed', p.stdout[-2000:], p.stderr[-2000:])
            return False
        if c != a:
            print('NONDETERMINISM across interpreters (PYTHONHASHSEED=%s):' % hs, a, c)
            ok = False
    # aggregated digests with 1 and 16 workers
    for prop in props[:3]:
        ds = []
        for w in (1, 16):
            p = subprocess.run([sys.executable, '-B', '-m', 'sim.check', '--property', prop, '--runs', '640', '--workers', str(w),
                                '--no-evidence', '--digest-only'], cwd=ROOT, capture_output=True, text=True)
            d = [line for line in p.stdout.splitlines() if line.startswith('DIGEST ')]
            ds.append(d[0] if d else 'rc=%d %s' % (p.returncode, p.stdout[-300:]))
        if ds[0] != ds[1]:
            print('NONDETERMINISM across worker counts for %s: %s' % (prop, ds))
            ok = False
    print('determinism: %s (%d props x %d seeds x [2 in-process + 2 fresh interpreters], worker counts 1/16)' % (
        'OK' if ok else 'FAILED', len(props), seeds))
    for k in sorted(a):
        print('  %s %s' % (k, a[k]))
    return ok


def terminal():
    from sim import terminal as T
    s = T.Screen().feed('\x1b[1;38;5;214mab\x1b[22mc\x1b[0;4;58;2;1;2;3md\x1b[m e')
    st = s.styles()
    assert s.text == 'abcd e'
    assert dict(st[0]) == {'bold': (1,), 'fg': (38, 5, 214)}, st[0]
    assert dict(st[2]) == {'fg': (38, 5, 214)}
    assert dict(st[3]) == {'underline': (4,), 'ulcolor': (58, 2, 1, 2, 3)}
    assert st[4] == () and s.final_state() == ()
    assert T.eff_of_codes(['31', '0', '1']) == (('bold', (1,)),)
    assert T.eff_of_codes(['11', '10']) == ()
    assert T.eff_of_codes(['2', '1', '22', '21', '4', '24']) == ()
    for bad in ('\x1b[1:3mx', '\x1b[?25mx', '\x1b[38;7mx', '\x1b[2Jx', '\x1b[1'):
        try:
            T.Screen().feed(bad)
        except T.Undefined:
            continue
        raise AssertionError(bad)
    print('terminal: OK')
    return True


def main():
    ap = argparse.ArgumentParser()
    ap.add_argument('what')
    ap.add_argument('--seeds', type=int, default=400)
    ap.add_argument('--props', default='C01,C03,C04,C05,C06,C07,C08,C09,C11,C12,C13,C15,C16,C17')
    a = ap.parse_args()
    props = a.props.split(',')
    if a.what == '_digests':
        print(json.dumps(run_digests(props, a.seeds)))
        return 0
    if a.what == 'determinism':
        return 0 if determinism(props, a.seeds) else 1
    if a.what == 'terminal':
        return 0 if terminal() else 1
    print('unknown self-test')
    return 2


if __name__ == '__main__':
    sys.exit(main())
