"""Executable reference semantics on observations.

Each function maps the observation(s) taken *before* an operation to what the property texts
say the result must look like: a text and, per character, an expected cell (tuple of code
strings) to be compared with `codes.sim` -- "same settings with the same precedence among
conflicting settings".  Nothing here looks at the library's internals.
"""
from . import atoms, strref
from .codes import sim

WHITESPACE_CHARS = ' \t\n\r\v\f'   # documented default strip set (C10)


class Exp:
    """Expected (text, cells) of one result value."""
    __slots__ = ('text', 'cells')

    def __init__(self, text, cells):
        self.text = text
        self.cells = tuple(cells)
        assert len(self.text) == len(self.cells), (text, cells)

    def to_json(self):
        return {'text': self.text, 'cells': [list(c) for c in self.cells]}


def norm_range(n, a, b):
    """Python slice rules."""
    i0, i1, _ = slice(a, b).indices(n)
    if i1 < i0:
        i1 = i0
    return i0, i1


def compare(post, exp: Exp):
    """Returns None or (what, index, expected, got)."""
    if post.text != exp.text:
        return ('text', None, exp.text, post.text)
    for i, (g, e) in enumerate(zip(post.cells, exp.cells)):
        if not sim(g, e):
            return ('cell', i, list(e), list(g))
    return None


# ---------------------------------------------------------------- C04
def m_slice(pre, a, b):
    i0, i1 = norm_range(len(pre.text), a, b)
    return Exp(pre.text[i0:i1], pre.cells[i0:i1])


def m_index(pre, i):
    n = len(pre.text)
    j = i + n if i < 0 else i
    return Exp(pre.text[j], (pre.cells[j],))


def m_iter(pre):
    return [Exp(pre.text[i], (pre.cells[i],)) for i in range(len(pre.text))]


# ---------------------------------------------------------------- C05
def m_concat(obs_list):
    text = ''.join(o.text for o in obs_list)
    cells = []
    for o in obs_list:
        cells.extend(o.cells)
    return Exp(text, cells)


# ---------------------------------------------------------------- C07
def m_remove(pre, sel_codes, a, b):
    """sel_codes None -> all."""
    n = len(pre.text)
    i0, i1 = norm_range(n, a, b)
    cells = list(pre.cells)
    for i in range(i0, i1):
        if sel_codes is None:
            cells[i] = ()
        else:
            cells[i] = tuple(c for c in cells[i] if c not in sel_codes)
    return Exp(pre.text, cells)


def m_clear(pre):
    return Exp(pre.text, [() for _ in pre.text])


# ---------------------------------------------------------------- C12
def m_pad(pre, how, width, fill, ext):
    t = pre.text
    n = len(t)
    pad = width - n
    if pad <= 0:
        return Exp(t, pre.cells), 0, 0
    if how == 'ljust':
        left, right = 0, pad
    elif how in ('rjust', 'zfill'):
        left, right = pad, 0
    else:
        left = pad // 2
        right = pad - left
    lc = pre.cells[0] if (ext and n) else ()
    rc = pre.cells[-1] if (ext and n) else ()
    return Exp(fill * left + t + fill * right, [lc] * left + list(pre.cells) + [rc] * right), left, right


def spec_reading(sp):
    """Intended reading of a composed format spec: (how, width, fill, ext, ansi_codes)."""
    how = {'<': 'ljust', '>': 'rjust', '^': 'center', None: 'ljust'}[sp.get('align')]
    width = sp.get('width')
    fill = sp.get('fill') if sp.get('fill') is not None else ' '
    ext = sp.get('flag') != '-'
    ansi = None
    if sp.get('ansi') is not None:
        ansi = []
        for i in sp['ansi']:
            ansi.extend(atoms.CATALOGUE[i].codes)
    return how, (width if width is not None else 0), fill, ext, ansi


def m_spec(pre, sp):
    """Padded text/cells plus the ansi part applied on top (whole result when extending, the
    original characters otherwise)."""
    how, width, fill, ext, ansi = spec_reading(sp)
    exp, left, right = m_pad(pre, how, width, fill, ext)
    cells = list(exp.cells)
    if ansi:
        rng = range(len(cells)) if ext else range(left, left + len(pre.text))
        for i in rng:
            cells[i] = cells[i] + tuple(ansi)
    return Exp(exp.text, cells)


# ---------------------------------------------------------------- C11
def m_same_len_text(pre, new_text):
    return Exp(new_text, pre.cells)


def m_assign(pre, new_text):
    n_old, n_new = len(pre.text), len(new_text)
    if n_new <= n_old:
        return Exp(new_text, pre.cells[:n_new])
    last = pre.cells[-1] if n_old else ()
    return Exp(new_text, list(pre.cells) + [last] * (n_new - n_old))


def m_pieces(pre, offs):
    return [Exp(pre.text[a:b], pre.cells[a:b]) for a, b in offs]


def m_strip(pre, how, chars):
    a, b = strref.strip(pre.text, chars, how in ('strip', 'lstrip'), how in ('strip', 'rstrip'), WHITESPACE_CHARS)
    return Exp(pre.text[a:b], pre.cells[a:b])


def m_rmfix(pre, how, x):
    t = pre.text
    if how == 'prefix':
        if x and t.startswith(x):
            return Exp(t[len(x):], pre.cells[len(x):])
        return Exp(t, pre.cells)
    if x and t.endswith(x):
        return Exp(t[:-len(x)], pre.cells[:-len(x)])
    return Exp(t, pre.cells)


def m_partition(pre, how, sep):
    t = pre.text
    idx = t.find(sep) if how == 'partition' else t.rfind(sep)
    if idx < 0:
        # documented deviation (C10): rpartition behaves like partition when the separator is absent
        return [Exp(t, pre.cells), Exp('', ()), Exp('', ())]
    e = idx + len(sep)
    return m_pieces(pre, [(0, idx), (idx, e), (e, len(t))])


def m_replace(pre, old, new_obs, new_is_plain, count, pieces=None):
    """old non-empty.  A plain-str replacement takes the settings of the first character of the
    match; an AnsiString/AnsiStr replacement keeps its own, for every match.  pieces: for a plain str
    that carries escape sequences, the replacement of each match as the constructor builds it from the
    str and the settings of the first character of that match."""
    t = pre.text
    text = []
    cells = []
    pos = 0
    for j, (a, b) in enumerate(strref.replace_matches(t, old, count)):
        text.append(t[pos:a])
        cells.extend(pre.cells[pos:a])
        if pieces is not None:
            text.append(pieces[j].text)
            cells.extend(pieces[j].cells)
            pos = b
            continue
        text.append(new_obs.text)
        if new_is_plain:
            cells.extend([pre.cells[a]] * len(new_obs.text))
        else:
            cells.extend(new_obs.cells)
        pos = b
    text.append(t[pos:])
    cells.extend(pre.cells[pos:])
    return Exp(''.join(text), cells)
