"""Deterministic step clock: counts control-flow events (sys.monitoring) while an operation runs
and aborts it when a budget is exceeded.  The count for a fixed operation is identical run to
run, so a non-termination report replays exactly.  This is the only 'simulated time' there is.
"""
import sys

mon = sys.monitoring
TOOL = mon.PROFILER_ID
EVENTS = mon.events.PY_START | mon.events.JUMP | mon.events.BRANCH

DEFAULT_BUDGET = 3_000_000
MAX_BUDGET = 200_000_000


class BudgetExceeded(BaseException):
    pass


class _State:
    count = 0
    budget = 0
    active = False
    total = 0


def _tick(*_a):
    _State.count += 1
    if _State.count > _State.budget:
        _State.active = False
        mon.set_events(TOOL, 0)
        raise BudgetExceeded()


_installed = False


def _install():
    global _installed
    if _installed:
        return
    try:
        mon.use_tool_id(TOOL, 'verif-step-clock')
    except ValueError:
        pass
    mon.register_callback(TOOL, mon.events.PY_START, _tick)
    mon.register_callback(TOOL, mon.events.JUMP, _tick)
    mon.register_callback(TOOL, mon.events.BRANCH, _tick)
    _installed = True


def run(fn, budget=DEFAULT_BUDGET):
    """Runs fn() under the clock.  Returns (result, events).  Raises BudgetExceeded."""
    _install()
    _State.count = 0
    _State.budget = budget
    _State.active = True
    mon.set_events(TOOL, EVENTS)
    try:
        return fn(), _State.count
    finally:
        mon.set_events(TOOL, 0)
        _State.active = False
        _State.total += _State.count


def total_events() -> int:
    return _State.total
