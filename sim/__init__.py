"""Deterministic history simulator for Tails86/ansi-string (see /verif/DESIGN.md)."""
