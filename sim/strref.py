"""Offset-tracking re-implementations of the str methods whose pieces C11 talks about.

Every function returns [(start, end)] offsets into the original text.  Each result is validated
against the real str method's *texts* at every use (validate=...); a disagreement is a harness
error, never a violation.
"""

LINE_BREAKS = '\n\r\x0b\x0c\x1c\x1d\x1e\x85\u2028\u2029'


class HarnessError(Exception):
    pass


def _validate(t, offs, want):
    got = [t[a:b] for a, b in offs]
    if got != list(want):
        raise HarnessError('offset splitter disagrees with str: %r -> %r vs %r' % (t, got, want))
    return offs


def split(t, sep, maxsplit):
    if sep is None:
        offs = []
        i, L, n = 0, len(t), 0
        while True:
            while i < L and t[i].isspace():
                i += 1
            if i == L:
                break
            if maxsplit >= 0 and n >= maxsplit:
                offs.append((i, L))
                break
            j = i
            while j < L and not t[j].isspace():
                j += 1
            offs.append((i, j))
            n += 1
            i = j
        return _validate(t, offs, t.split(None, maxsplit))
    offs = []
    i, n = 0, 0
    while maxsplit < 0 or n < maxsplit:
        j = t.find(sep, i)
        if j < 0:
            break
        offs.append((i, j))
        i = j + len(sep)
        n += 1
    offs.append((i, len(t)))
    return _validate(t, offs, t.split(sep, maxsplit))


def rsplit(t, sep, maxsplit):
    if sep is None:
        offs = []
        e, n = len(t), 0
        while True:
            while e > 0 and t[e - 1].isspace():
                e -= 1
            if e == 0:
                break
            if maxsplit >= 0 and n >= maxsplit:
                offs.append((0, e))
                break
            s = e
            while s > 0 and not t[s - 1].isspace():
                s -= 1
            offs.append((s, e))
            n += 1
            e = s
        offs.reverse()
        return _validate(t, offs, t.rsplit(None, maxsplit))
    offs = []
    e, n = len(t), 0
    while maxsplit < 0 or n < maxsplit:
        j = t.rfind(sep, 0, e)
        if j < 0:
            break
        offs.append((j + len(sep), e))
        e = j
        n += 1
    offs.append((0, e))
    offs.reverse()
    return _validate(t, offs, t.rsplit(sep, maxsplit))


def splitlines(t, keepends):
    offs = []
    i, L = 0, len(t)
    while i < L:
        j = i
        while j < L and t[j] not in LINE_BREAKS:
            j += 1
        k = j
        if k < L:
            if t[k] == '\r' and k + 1 < L and t[k + 1] == '\n':
                k += 2
            else:
                k += 1
        offs.append((i, k if keepends else j))
        i = k
    return _validate(t, offs, t.splitlines(keepends))


def strip(t, chars, left, right, default_ws):
    """Offsets of the surviving text.  chars None -> the library's documented default set."""
    cs = default_ws if chars is None else chars
    a, b = 0, len(t)
    if left:
        while a < b and t[a] in cs:
            a += 1
    if right:
        while b > a and t[b - 1] in cs:
            b -= 1
    return (a, b)


def replace_matches(t, old, count):
    """Non-overlapping left-to-right matches of a non-empty `old`: [(start, end)]."""
    assert old
    out = []
    i, n = 0, 0
    while count < 0 or n < count:
        j = t.find(old, i)
        if j < 0:
            break
        out.append((j, j + len(old)))
        i = j + len(old)
        n += 1
    return out
