"""Observation (abstraction function) of a value through the public API only."""
from . import lib

S, A, T = 'S', 'A', 'T'   # AnsiString, AnsiStr, plain str


def kind_of(v) -> str:
    if isinstance(v, lib.AnsiString):
        return S
    if isinstance(v, lib.AnsiStr):
        return A
    if isinstance(v, str):
        return T
    raise TypeError('not a pool value: %r' % type(v))


class Obs:
    __slots__ = ('kind', 'text', 'cells', 'render', 'payload', 'objs', 'literal')

    def __init__(self, kind, text, cells, render, payload=None, objs=None):
        self.kind = kind
        self.text = text
        self.cells = cells
        self.render = render
        self.payload = payload
        self.objs = objs
        self.literal = None

    def key(self):
        return (self.kind, self.text, self.cells, self.render, self.payload)

    def same_value(self, other) -> bool:
        return self.key() == other.key()

    def change_points(self):
        """Indices i (0 < i < len) where the reported settings differ from those at i-1, plus 0
        and len when the first/last character carries settings."""
        cps = []
        c = self.cells
        for i in range(len(c)):
            if (i == 0 and c[0]) or (i > 0 and c[i] != c[i - 1]):
                cps.append(i)
        if c and c[-1]:
            cps.append(len(c))
        return cps

    def to_json(self):
        return {'kind': self.kind, 'text': self.text, 'cells': [list(x) for x in self.cells]}


def observe(v, objs: bool = False) -> Obs:
    k = kind_of(v)
    if k == T:
        return Obs(T, v, tuple(() for _ in v), v)
    text = v.base_str
    n = len(text)
    per = [v.ansi_settings_at(i) for i in range(n)]
    cells = tuple(tuple(str(x) for x in cell) for cell in per)
    if k == A:
        return Obs(A, text, cells, v.to_str(), str.__str__(v), per if objs else None)
    return Obs(S, text, cells, str(v), None, per if objs else None)


def digest_update(h, o: Obs):
    h.update(repr(o.key()).encode('utf-8', 'surrogatepass'))
