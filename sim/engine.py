"""The world of live, aliasing values and the step loop.

A history is a list of op descriptors (plain JSON).  `run_history` executes it on the real
library from an empty world and lets one property's oracle judge every step; it contains no
PRNG draws, so replay needs no seed.
"""
import hashlib

from . import atoms, clock, lib, ops
from .obs import S, A, T, Obs, observe, kind_of

AnsiString, AnsiStr = lib.AnsiString, lib.AnsiStr


class Violation(Exception):
    def __init__(self, prop, predicate, step, detail=None):
        super().__init__('%s %s at step %s' % (prop, predicate, step))
        self.prop = prop
        self.predicate = predicate
        self.step = step
        self.detail = detail or {}

    def to_json(self):
        return {'property': self.prop, 'predicate': self.predicate, 'step': self.step, 'detail': self.detail}


class Fail(Exception):
    """Raised by oracle code: a predicate of the oracle's property does not hold."""

    def __init__(self, predicate, **detail):
        super().__init__(predicate)
        self.predicate = predicate
        self.detail = detail


def require(cond, predicate, **detail):
    if not cond:
        raise Fail(predicate, **detail)


class Ctx:
    """Everything an oracle may look at for one step."""

    def __init__(self):
        self.op = None
        self.kind = None
        self.step = None
        self.world = None
        self.recv = None          # live receiver (before the call)
        self.recv_slot = None
        self.ip = False
        self.pre = None           # Obs of the receiver before
        self.pre_objs = None      # per-character lists of setting objects before (identity)
        self.operands = {}        # descriptor key -> (value, Obs before)
        self.result = None
        self.exc = None
        self.timeout = False
        self.events = 0
        self.post = None          # Obs / [Obs] of the result
        self.pre_all = None
        self.post_all = None
        self.entitled = set()
        self.skipped = None
        self.built = []           # (object, snapshot) of settings arguments built for the call
        self.sick = {}            # slot -> exception raised while observing it after the step
        self.result_sick = None
        self.stored = None
        self.before_exc = None
        self.recv_post = None
        self.recv_post_exc = None


class World:
    def __init__(self, knobs):
        self.knobs = knobs
        n = knobs.get('pool', 4)
        atoms.reset_reuse(knobs.get('reuse', False))
        self.vals = [AnsiString() for _ in range(n)]
        self.obs = [observe(v) for v in self.vals]
        self.stats = {}
        self.digest = hashlib.sha256()
        self.nontrivial = False
        self.oracle = None
        # open character iterators, keyed by the identity of their source object (kept alive here)
        self.iters = {}

    def count(self, key, n=1):
        self.stats[key] = self.stats.get(key, 0) + n

    def res(self, desc):
        if 'slot' in desc:
            return self.vals[desc['slot'] % len(self.vals)]
        return desc['text']

    def res_obs(self, desc):
        if 'slot' in desc:
            return self.obs[desc['slot'] % len(self.vals)]
        t = desc['text']
        if '\x1b' in t:
            # a plain str operand is taken as AnsiString(operand) by +, += and join (documented: "value as str
            # or AnsiString"); what that parse yields is C02's business, the relations use it as given
            o = observe(AnsiString(t))
            self.count('probe:plain_operand_with_escape')
            out = Obs(T, o.text, o.cells, o.render)
            out.literal = Obs(T, t, tuple(() for _ in t), t)     # the other admissible reading (see C05)
            return out
        return observe(t)


def operand_descs(op):
    k = op['op']
    if k in ('add', 'iadd'):
        return [op['o']]
    if k == 'replace':
        return [op['new']]
    if k == 'join':
        return list(op['xs'])
    if k == 'query' and 'o' in op:
        return [op['o']]
    return []


def _safe_observe(v, objs=False):
    try:
        return observe(v, objs), None
    except Exception as e:   # the library's self-check or a latent corruption surfacing
        return None, e


def execute(world: World, op, step_no, oracle=None, budget=clock.DEFAULT_BUDGET, bad_runner=None) -> Ctx:
    """Executes one op on the world.  Never judges; returns the step context."""
    ctx = Ctx()
    ctx.op, ctx.kind, ctx.step, ctx.world = op, op['op'], step_no, world
    k = op['op']
    n = len(world.vals)
    ctx.pre_all = list(world.obs)

    recv = None
    if k not in ops.NO_RECV:
        ctx.recv_slot = op['r'] % n
        recv = world.vals[ctx.recv_slot]
        rk = kind_of(recv)
        if rk == T:
            ctx.skipped = 'receiver is a plain str'
        elif rk == A and k in ('assign', 'setansi'):
            ctx.skipped = 'AnsiStr has no such mutator'
        elif rk == A and k == 'conv' and op['how'] == 'copy':
            ctx.skipped = 'AnsiStr has no copy()'
        ctx.recv = recv
        ctx.pre = world.obs[ctx.recv_slot]
        ctx.ip = bool(op.get('ip')) and rk == S and ops.has_inplace_form(k)
        if k in ('assign', 'setansi'):
            ctx.ip = True
    if k == 'join':
        first = world.res(op['xs'][0]) if op['xs'] else None
        if op['xs'] and isinstance(first, AnsiStr) is False and not isinstance(first, (AnsiString, str)):
            ctx.skipped = 'join first argument'
    if ctx.skipped:
        world.count('skipped_steps')
        ctx.post_all = ctx.pre_all
        return ctx

    for d in operand_descs(op):
        key = repr(sorted(d.items()))
        ctx.operands[key] = (world.res(d), world.res_obs(d))
    if k == 'apply' and recv is not None:
        try:
            ctx.pre_objs = [recv.ansi_settings_at(i) for i in range(len(ctx.pre.text))]
        except Exception:
            ctx.pre_objs = None

    use_clock = bool(oracle is not None and oracle.use_clock)
    if oracle is not None:
        try:
            oracle.before(ctx)
        except Fail:
            raise
        except Exception as e:   # a twin computation raised: recorded, judged by the oracle
            ctx.before_exc = e
    atoms.BUILT.clear()

    def call():
        if k == 'bad':
            return bad_runner(op, recv, world)
        if k == 'itnext':
            # a reader that stays open across later steps: the source may be modified in place between two
            # next() calls (the interleaving of a consumer with in-place operations on the same object)
            ent = world.iters.get(id(recv))
            if ent is None or ent[0] is not recv:
                if len(world.iters) >= 4:
                    world.iters.clear()
                ent = world.iters[id(recv)] = [recv, iter(recv), None]
                world.count('iter_opened')
            key = ctx.pre.key()
            if ent[2] is not None and ent[2] != key:
                world.count('probe:iterator_source_changed_between_nexts')
            ent[2] = key
            try:
                item = next(ent[1])
            except StopIteration:
                del world.iters[id(recv)]
                world.count('iter_exhausted')
                return None
            world.count('iter_next')
            return item
        return ops.perform(op, recv, ctx.ip, world.res)

    try:
        if use_clock:
            # the budget grows with the square of the longest text involved: replace('', x) and format_matching with
            # a match at every character are quadratic by construction (about 60 events per character pair; the budget allows 100 times that), so
            # a flat budget would call an operation on a 300-character value a hang although it ends
            n_max = max([len(o.text) for o in [ctx.pre] + [ob for _, ob in ctx.operands.values()] if o is not None] or [0])
            budget = min(max(budget, 6000 * (n_max + 1) ** 2), clock.MAX_BUDGET)
            ctx.result, ctx.events = clock.run(call, budget)
        else:
            ctx.result = call()
    except clock.BudgetExceeded:
        ctx.timeout = True
        ctx.events = budget
    except Exception as e:
        ctx.exc = e
    ctx.built = list(atoms.BUILT)
    atoms.BUILT.clear()

    # ---- store the result
    shape = ops.result_shape(op)
    dst = op.get('d')
    if ctx.ip:
        ctx.entitled.add(ctx.recv_slot)
    if k == 'bad' and ctx.exc is None and ctx.recv_slot is not None and isinstance(recv, AnsiString):
        from . import badops as _bo
        if op.get('what') in _bo.ALWAYS_IN_PLACE or (op.get('what') in _bo.MAY_MUTATE and op.get('ip')):
            # the call was accepted after all ("either succeeds or raises"): it ran in its in-place form
            ctx.entitled.add(ctx.recv_slot)
            ctx.bad_succeeded_in_place = True
    if ctx.exc is None and not ctx.timeout and dst is not None and not ctx.ip:
        dst %= n
        val = ctx.result
        if shape == 'values':
            items = list(val) if val is not None else []
            val = items[op.get('pick', 0) % len(items)] if items else None
        if shape in ('value', 'values', 'str') and val is not None:
            if any(val is w for w in world.vals) and not isinstance(val, str):
                world.count('alias_result_not_stored')
            elif isinstance(val, str) and not isinstance(val, AnsiStr) and '\x1b' in val:
                # a plain str with escape sequences would be *parsed* when used as an operand
                # (C02's business); such strings enter the world only through explicit 'new' ops
                world.count('escaped_str_not_stored')
            elif isinstance(val, (AnsiString, AnsiStr, str)):
                world.vals[dst] = val
                ctx.entitled.add(dst)
                ctx.stored = dst
    elif ctx.ip and ctx.exc is None and not ctx.timeout and k in ('iadd',) and ctx.result is not recv:
        pass

    # ---- observe the world after the step
    post_all = []
    for i, v in enumerate(world.vals):
        o, e = _safe_observe(v)
        if o is None:
            ctx.sick[i] = e
            post_all.append(None)
        else:
            post_all.append(o)
    ctx.post_all = post_all

    # ---- the receiver object itself (it may no longer be in the pool if the result went to its slot)
    if recv is not None and not ctx.ip:
        ctx.recv_post, ctx.recv_post_exc = _safe_observe(recv)

    # ---- observation of the result itself
    if ctx.exc is None and not ctx.timeout:
        r = ctx.result
        if shape == 'value' and isinstance(r, (AnsiString, AnsiStr)):
            ctx.post, ctx.result_sick = _safe_observe(r)
        elif shape == 'values' and r is not None:
            obs_list = []
            for item in r:
                o, e = _safe_observe(item) if isinstance(item, (AnsiString, AnsiStr)) else (None, TypeError('piece type %s' % type(item)))
                if o is None:
                    ctx.result_sick = e
                    obs_list = None
                    break
                obs_list.append(o)
            ctx.post = obs_list
    return ctx


def commit(world: World, ctx: Ctx, drop_sick=True):
    """Adopts the post-step observations as the next step's pre-observations; sick values are
    replaced by a fresh empty AnsiString (and counted) so that one defect does not poison the
    rest of the history for checks that do not own it."""
    for i, o in enumerate(ctx.post_all):
        if o is None:
            world.count('selfcheck_trips')
            world.vals[i] = AnsiString()
            world.obs[i] = observe(world.vals[i])
        else:
            world.obs[i] = o
            world.digest.update(repr(o.key()).encode('utf-8', 'surrogatepass'))


class Oracle:
    """Base class: one property's predicates."""
    prop = None
    own_kinds = frozenset()
    use_clock = False
    with_assertions = None   # None: per-run knob

    def begin(self, world):
        pass

    def before(self, ctx: Ctx):
        """Called right before the operation runs (receiver and operands still in their
        pre-state): compute twins the relation needs."""
        pass

    def step(self, ctx: Ctx):
        pass

    def nontrivial(self, ctx: Ctx):
        return False


def run_history(oracle: Oracle, knobs, history, stats=None, trace=None):
    """Executes `history` from an empty world under `oracle`.  Returns the world; raises Violation."""
    wa = knobs.get('wa', True) if oracle.with_assertions is None else oracle.with_assertions
    AnsiString.WITH_ASSERTIONS = bool(wa)
    world = World(knobs)
    world.oracle = oracle
    oracle.begin(world)
    from . import badops
    for i, op in enumerate(history):
        try:
            ctx = execute(world, op, i, oracle=oracle, bad_runner=badops.run)
        except Fail as f:
            raise Violation(oracle.prop, f.predicate, i, f.detail)
        if trace is not None:
            trace.append(ctx)
        if not ctx.skipped:
            world.count('op:' + op['op'])
            try:
                oracle.step(ctx)
            except Fail as f:
                raise Violation(oracle.prop, f.predicate, i, f.detail)
            if ctx.exc is not None and op['op'] != 'bad':
                world.count('op_exceptions')
            try:
                if oracle.nontrivial(ctx):
                    world.count('nontrivial_steps')
                    world.nontrivial = True
            except Exception:
                pass
        commit(world, ctx)
    return world
