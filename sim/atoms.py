"""Settings atoms: every documented way of spelling a setting, each with the code strings it
must produce according to the harness's own table (C14's mapping; never taken from the library).

An atom is referred to by its id (a string) in op descriptors.  A settings argument is a JSON
value: an atom id, or a (nested) list of atom ids; {"tuple": [...]} marks a tuple level.

Classes:
  plain    one complete known non-reset group  -> valid, parsable, optimisable
  pair     ul_/dul_ forms: two plain settings
  multi    numeric, complete, several groups in ONE setting (verbatim "1;31") -> valid, not parsable
  reset    the reset code as a setting
  unknown  numeric complete but unknown code ("56")
  odd      valid but outside the numeric grammar ("38;5", "38;5;256", "1:3", "?25")
  invalid  contains a byte in 0x40..0x7E
`guaranteed` marks the forms C15 promises to be valid and parsable.
"""
from . import lib
from . import terminal as _T

AF = lib.AnsiFormat
AS = lib.AnsiSetting


class Atom:
    __slots__ = ('id', 'kind', 'arg', 'codes', 'cls', 'guaranteed', 'is_int')

    def __init__(self, id, kind, arg, codes, cls='plain', guaranteed=False):
        self.id = id
        self.kind = kind
        self.arg = arg
        self.codes = tuple(codes)
        self.cls = cls
        self.guaranteed = guaranteed
        # ints and ';'-strings of ints merge with adjacent ones on the same list level
        self.is_int = kind in ('int', 'intstr')

    def build(self):
        k = self.kind
        if k in ('name', 'intstr', 'rgbstr', 'verb'):
            return self.arg
        if k == 'int':
            return self.arg
        if k == 'ints':
            return list(self.arg)
        if k == 'fmt':
            return AF[self.arg]
        if k == 'helper':
            fn, args = self.arg
            return getattr(AF, fn)(*args)
        if k in ('aset', 'asetl'):
            # argument objects owned by the harness may be reused across steps on purpose (the library
            # must copy what it keeps): one object per atom and run when REUSE is on
            if REUSE['on'] and self.id in REUSE['objs']:
                return REUSE['objs'][self.id]
            obj = AS(self.arg) if k == 'aset' else AS(list(self.arg))
            if REUSE['on']:
                REUSE['objs'][self.id] = obj
            return obj
        raise AssertionError(k)


CATALOGUE = {}
REUSE = {'on': False, 'objs': {}}


def reset_reuse(on):
    REUSE['on'] = bool(on)
    REUSE['objs'] = {}


def _add(*a, **kw):
    at = Atom(*a, **kw)
    assert at.id not in CATALOGUE, at.id
    CATALOGUE[at.id] = at


_NAMES = [
    ('bold', '1'), ('faint', '2'), ('italic', '3'), ('underline', '4'), ('double_underline', '21'),
    ('no_bold_faint', '22'), ('no_italic', '23'), ('no_underline', '24'), ('slow_blink', '5'),
    ('rapid_blink', '6'), ('no_blink', '25'), ('swap_bg_fg', '7'), ('no_swap_bg_fg', '27'),
    ('hide', '8'), ('no_hide', '28'), ('crossed_out', '9'), ('no_crossed_out', '29'),
    ('alt_font_1', '11'), ('gothic_font', '20'), ('default_font', '10'),
    ('proportional_spacing', '26'), ('no_proportional_spacing', '50'),
    ('framed', '51'), ('encircled', '52'), ('no_framed_encircled', '54'),
    ('overlined', '53'), ('no_overlined', '55'), ('default_underline_color', '59'),
    ('red', '31'), ('blue', '34'), ('fg_green', '32'), ('bright_red', '91'), ('fg_default', '39'),
    ('bg_red', '41'), ('bg_blue', '44'), ('bg_bright_blue', '104'), ('bg_default', '49'),
    ('orange', '38;5;214'), ('fg_purple', '38;5;90'), ('bg_orange', '48;5;214'),
    ('fg_indian_red', '38;2;205;92;92'), ('bg_indian_red', '48;2;205;92;92'),
]
for _n, _c in _NAMES:
    _add('n:' + _n, 'name', _n, [_c], guaranteed=True)
    _add('f:' + _n, 'fmt', _n.upper(), [_c], guaranteed=True)
# spelling variants
_add('n:No-Bold Faint', 'name', 'No-Bold Faint', ['22'], guaranteed=True)
_add('n:BG BLUE', 'name', 'BG BLUE', ['44'], guaranteed=True)
_add('n:Fg-Red', 'name', 'Fg-Red', ['31'], guaranteed=True)
# two-setting members
_add('n:ul_red', 'name', 'ul_red', ['4', '58;5;9'], cls='pair', guaranteed=True)
_add('f:dul_orange', 'fmt', 'DUL_ORANGE', ['21', '58;5;214'], cls='pair', guaranteed=True)
_add('f:ul_indian_red', 'fmt', 'UL_INDIAN_RED', ['4', '58;2;205;92;92'], cls='pair', guaranteed=True)
# integers
for _i in (1, 2, 3, 4, 7, 9, 21, 22, 24, 31, 34, 39, 41, 49, 53, 55, 10, 11, 26, 50, 51, 54, 59, 91, 104):
    _add('i:%d' % _i, 'int', _i, [str(_i)], guaranteed=True)
_add('i:0', 'int', 0, ['0'], cls='reset')
_add('i:56', 'int', 56, ['56'], cls='unknown')
# integer lists (each is its own list level, so no merging with neighbours)
_add('l:38,5,200', 'ints', (38, 5, 200), ['38;5;200'])
_add('l:48,2,1,2,3', 'ints', (48, 2, 1, 2, 3), ['48;2;1;2;3'])
_add('l:1,31', 'ints', (1, 31), ['1', '31'], cls='pair')
_add('l:4,38,5,200', 'ints', (4, 38, 5, 200), ['4', '38;5;200'], cls='pair')
_add('l:58,5,9,3', 'ints', (58, 5, 9, 3), ['58;5;9', '3'], cls='pair')
# ';'-strings
_add('s:1;31', 'intstr', '1;31', ['1', '31'], cls='pair')
_add('s:38;5;200', 'intstr', '38;5;200', ['38;5;200'])
_add('s:01', 'intstr', '01', ['1'])
_add('s:bold;red', 'name', 'bold;red', ['1', '31'], cls='pair', guaranteed=True)
_add('s:44', 'intstr', '44', ['44'])
# helper results
_add('h:rgb(1,2,3)', 'helper', ('rgb', (1, 2, 3)), ['38;2;1;2;3'], guaranteed=True)
_add('h:bg_rgb(0x010203)', 'helper', ('bg_rgb', (0x010203,)), ['48;2;1;2;3'], guaranteed=True)
_add('h:ul_rgb(1,2,3)', 'helper', ('ul_rgb', (1, 2, 3)), ['4', '58;2;1;2;3'], cls='pair', guaranteed=True)
_add('h:dul_color256(9)', 'helper', ('dul_color256', (9,)), ['21', '58;5;9'], cls='pair', guaranteed=True)
_add('h:fg_color256(200)', 'helper', ('fg_color256', (200,)), ['38;5;200'], guaranteed=True)
_add('h:bg_colour256(17)', 'helper', ('bg_colour256', (17,)), ['48;5;17'], guaranteed=True)
_add('h:rgb(300,-4,5)', 'helper', ('rgb', (300, -4, 5)), ['38;2;255;0;5'], guaranteed=True)
# every other set / clear code as a bare int (the self-check below drops what the library does not know)
for _c in sorted(set(_T.SET) | set(_T.CLEAR)):
    if 'i:%d' % _c not in CATALOGUE:
        _add('i:%d' % _c, 'int', _c, [str(_c)], guaranteed=True)
# rgb()/color256() strings
_add('r:rgb(1,2,3)', 'rgbstr', 'rgb(1,2,3)', ['38;2;1;2;3'])
_add('r:bg_rgb(0x010203)', 'rgbstr', 'bg_rgb(0x010203)', ['48;2;1;2;3'])
_add('r:ul_color256(9)', 'rgbstr', 'ul_color256(9)', ['4', '58;5;9'], cls='pair')
_add('r:dul_rgb(1, 2, 3)', 'rgbstr', 'dul_rgb(1, 2, 3)', ['21', '58;2;1;2;3'], cls='pair')
_add('r:fg_colour256(0xC8)', 'rgbstr', 'fg_colour256(0xC8)', ['38;5;200'])
# verbatim strings and AnsiSetting objects
_add('v:1', 'verb', '[1', ['1'])
_add('v:31', 'verb', '[31', ['31'])
_add('v:38;5;214', 'verb', '[38;5;214', ['38;5;214'])
_add('v:01', 'verb', '[01', ['01'])
_add('a:1', 'aset', '1', ['1'])
_add('a:34', 'aset', '34', ['34'])
_add('a:38;5;200', 'asetl', (38, 5, 200), ['38;5;200'])
_add('a:48;2;1;2;3', 'aset', '48;2;1;2;3', ['48;2;1;2;3'])
_add('v:1;31', 'verb', '[1;31', ['1;31'], cls='multi')
_add('a:4;34', 'aset', '4;34', ['4;34'], cls='multi')
_add('a:38;5;200;1', 'aset', '38;5;200;1', ['38;5;200;1'], cls='multi')
# several groups in one setting, the FIRST of which clears an effect (what the setting 'is' must not be judged by its first code)
_add('v:22;31', 'verb', '[22;31', ['22;31'], cls='multi')
_add('a:39;1', 'aset', '39;1', ['39;1'], cls='multi')
_add('a:24;4;32', 'aset', '24;4;32', ['24;4;32'], cls='multi')
_add('v:0', 'verb', '[0', ['0'], cls='reset')
_add('a:0;1', 'aset', '0;1', ['0;1'], cls='reset')
_add('v:56', 'verb', '[56', ['56'], cls='unknown')
_add('v:38;5', 'verb', '[38;5', ['38;5'], cls='odd')
_add('a:38;5;256', 'aset', '38;5;256', ['38;5;256'], cls='odd')
_add('a:38', 'aset', '38', ['38'], cls='odd')
_add('v:1:3', 'verb', '[1:3', ['1:3'], cls='odd')
_add('a:4:3', 'aset', '4:3', ['4:3'], cls='odd')
_add('v:?25', 'verb', '[?25', ['?25'], cls='odd')
_add('a:1;', 'aset', '1;', ['1;'], cls='odd')
_add('a: 1', 'aset', ' 1', [' 1'], cls='odd')
_add('v:31m', 'verb', '[31m', ['31m'], cls='invalid')
_add('a:abc', 'aset', 'abc', ['abc'], cls='invalid')
_add('a:1;31mX', 'aset', '1;31mX', ['1;31mX'], cls='invalid')
_add('v:[1', 'verb', '[[1', ['[1'], cls='invalid')
_add('a:1@', 'aset', '1@', ['1@'], cls='invalid')
_add('a:~1', 'aset', '~1', ['~1'], cls='invalid')
_add('a:1`', 'aset', '1`', ['1`'], cls='invalid')
_add('a:3_1', 'aset', '3_1', ['3_1'], cls='invalid')
_add('v:38;5;1_0', 'verb', '[38;5;1_0', ['38;5;1_0'], cls='invalid')
_add('a:1/2', 'aset', '1/2', ['1/2'], cls='odd')
_add('a:1\x7f', 'aset', '1\x7f', ['1\x7f'], cls='odd')

# settings arguments that hold no setting at all
_add('e:empty', 'name', '', [], cls='empty')
_add('e:semi', 'name', ';', [], cls='empty')
_add('e:semis', 'name', ';;', [], cls='empty')

IDS = sorted(CATALOGUE)
BY_CLASS = {}
for _id in IDS:
    BY_CLASS.setdefault(CATALOGUE[_id].cls, []).append(_id)

_excluded = None


def excluded():
    """Atoms whose spelling -> codes mapping the library under test does not honour (C14, not
    claimed): they are not used in histories so that a C14 defect is never reported under
    another property's name.  Computed once per process, deterministically."""
    global _excluded
    if _excluded is None:
        bad = []
        for _id in IDS:
            at = CATALOGUE[_id]
            try:
                s = lib.AnsiString('x', at.build())
                got = tuple(str(x) for x in s.ansi_settings_at(0))
                s2 = lib.AnsiString('x')
                s2.apply_formatting([at.build()])
                got2 = tuple(str(x) for x in s2.ansi_settings_at(0))
            except Exception:
                got = got2 = None
            if got != at.codes or got2 != at.codes:
                bad.append(_id)
        _excluded = frozenset(bad)
    return _excluded


def usable_ids():
    ex = excluded()
    return [i for i in IDS if i not in ex]


def flatten(spec):
    """Atom ids of a settings spec, in order."""
    if isinstance(spec, str):
        return [spec]
    if isinstance(spec, dict):
        spec = spec['tuple']
    out = []
    for x in spec:
        out.extend(flatten(x))
    return out


def _build(spec):
    if isinstance(spec, str):
        return CATALOGUE[spec].build()
    if isinstance(spec, dict):
        return tuple(_build(x) for x in spec['tuple'])
    return [_build(x) for x in spec]


def snap_arg(x):
    if isinstance(x, (list, tuple)):
        return (type(x).__name__, tuple(snap_arg(i) for i in x))
    if isinstance(x, AS):
        return ('AnsiSetting', str(x))
    if isinstance(x, AF):
        return ('AnsiFormat', x.name)
    return (type(x).__name__, repr(x))


BUILT = []   # (object, snapshot) of every settings argument built since the engine last cleared it


def build(spec):
    """Python argument for a settings spec (recorded so that C08 can check it is not modified)."""
    obj = _build(spec)
    BUILT.append((obj, snap_arg(obj)))
    return obj


def mergeable_adjacent(spec) -> bool:
    """True when two int-like atoms are adjacent on one list level (their integers would be
    parsed as ONE run, whose grouping is C14/C18's business).  The generator avoids these."""
    if isinstance(spec, str):
        return False
    if isinstance(spec, dict):
        spec = spec['tuple']
    prev_int = False
    for x in spec:
        if isinstance(x, str):
            cur = CATALOGUE[x].is_int
            if cur and prev_int:
                return True
            prev_int = cur
        else:
            if mergeable_adjacent(x):
                return True
            prev_int = False
    return False


def codes(spec):
    out = []
    for i in flatten(spec):
        out.extend(CATALOGUE[i].codes)
    return out
