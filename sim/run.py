"""One seeded run = one exactly repeatable history; minimisation; replay files."""
import copy
import hashlib
import json
import os
import random

from . import avoid, badops, clock, engine, gen, lib, scenarios
from .engine import Violation, Fail
from .oracles import ORACLES

SEED_STRIDE = 1_000_003


def seed_for(verif_seed: int, k: int) -> int:
    return verif_seed * SEED_STRIDE + k


def _innermost(e):
    tb = e.__traceback__
    last = None
    while tb is not None:
        last = tb
        tb = tb.tb_next
    if last is None:
        return None
    return '%s:%d' % (last.tb_frame.f_code.co_filename, last.tb_lineno)


def _raised_in_library(e):
    w = _innermost(e)
    return bool(w) and (w.startswith(lib.SRC + os.sep) or '/re/' in w or w.startswith('<frozen'))


class RunResult:
    __slots__ = ('k', 'history', 'knobs', 'violation', 'stats', 'digest', 'nontrivial', 'steps', 'states', 'events')

    def __init__(self):
        self.violation = None
        self.stats = {}
        self.nontrivial = False
        self.states = ()
        self.events = 0


def _hist_digest(knobs, history):
    return hashlib.blake2b(json.dumps([knobs, history], sort_keys=True).encode(), digest_size=8).hexdigest()


def drive(oracle, knobs, supplier, collect_states=False):
    """Core loop shared by simulation and replay.  supplier(world, i) -> op or None."""
    wa = knobs.get('wa', True) if oracle.with_assertions is None else oracle.with_assertions
    lib.AnsiString.WITH_ASSERTIONS = bool(wa)
    world = engine.World(knobs)
    world.oracle = oracle
    oracle.begin(world)
    history = []
    states = set()
    violation = None
    ev0 = clock.total_events()
    i = 0
    while True:
        op = supplier(world, i)
        if op is None:
            break
        history.append(op)
        try:
            ctx = engine.execute(world, op, i, oracle=oracle, bad_runner=badops.run)
            if not ctx.skipped:
                world.count('op:' + op['op'])
                oracle.step(ctx)
                if ctx.exc is not None and op['op'] != 'bad':
                    world.count('op_exceptions')
                if op['op'] == 'bad':
                    world.count(('fault:' if ctx.exc is not None else 'fault_not_raised:') + op['what'])
                elif op['op'] == 'fmt' and 'raw' in (op.get('spec') or {}):
                    world.count(('fault:' if ctx.exc is not None else 'fault_not_raised:') + 'format_spec_op')
                if ctx.timeout:
                    world.count('fault:step_budget_exhausted')
                if oracle.nontrivial(ctx):
                    world.count('nontrivial_steps')
                    world.nontrivial = True
        except Fail as f:
            violation = Violation(oracle.prop, f.predicate, i, f.detail)
            break
        except Exception as e:
            if not _raised_in_library(e):
                raise   # harness bug: classified apart from violations by the caller
            # the oracle was probing the library (a twin, a closure probe, a rendering) and the
            # library raised on a value reached by successful operations
            violation = Violation(oracle.prop, 'probe.op_completed', i,
                                  {'exc': '%s: %s' % (type(e).__name__, e), 'op': op, 'where': _innermost(e)})
            break
        engine.commit(world, ctx)
        if collect_states:
            for s in ctx.entitled:
                o = world.obs[s]
                states.add(hashlib.blake2b(repr((o.text, o.cells)).encode('utf-8', 'surrogatepass'), digest_size=8).digest())
        i += 1
    lib.AnsiString.WITH_ASSERTIONS = False
    res = RunResult()
    res.history = history
    res.knobs = knobs
    res.violation = violation
    res.stats = world.stats
    res.nontrivial = world.nontrivial
    res.digest = world.digest.hexdigest()[:16]
    res.steps = len(history)
    res.states = states
    res.events = clock.total_events() - ev0
    return res


def simulate(prop, verif_seed, k, long_run=False, collect_states=False):
    rng = random.Random(seed_for(verif_seed, k))
    oracle = ORACLES[prop]()
    scen = scenarios.pick(rng, prop)
    g = gen.Gen(rng, oracle, long_run=long_run, scenario=scen)
    open_avoid = avoid.active()

    def supplier(world, i):
        if i >= g.steps:
            return None
        for _ in range(20):
            op = g.next_op(world)
            if not any(p(op, world) for p in open_avoid):
                return op
            world.count('avoided_steps')
        return {'op': 'query', 'r': 0, 'q': 'len'}

    res = drive(oracle, g.knobs, supplier, collect_states)
    res.k = k
    return res


def replay_ops(prop, knobs, history):
    oracle = ORACLES[prop]()
    hist = list(history)

    def supplier(world, i):
        return hist[i] if i < len(hist) else None

    return drive(oracle, knobs, supplier)


def same_failure(res, prop, predicate):
    return res.violation is not None and res.violation.prop == prop and res.violation.predicate == predicate


# ----------------------------------------------------------------------------- minimisation
def _shrink_candidates(v):
    """Simpler values for one JSON argument."""
    out = []
    if isinstance(v, bool):
        if v:
            out.append(False)
    elif isinstance(v, int):
        for c in (None, 0, 1, -1, v // 2, v - 1 if v > 0 else v + 1):
            if c != v and c not in out:
                out.append(c)
    elif isinstance(v, str):
        if v:
            out.append('')
            for i in range(len(v)):
                out.append(v[:i] + v[i + 1:])
            canon = ''.join('a' if ch.isalpha() and ch not in 'ab' else ch for ch in v)
            if canon != v:
                out.append(canon)
    elif isinstance(v, list):
        for i in range(len(v)):
            out.append(v[:i] + v[i + 1:])
        for i, x in enumerate(v):
            for c in _shrink_candidates(x):
                out.append(v[:i] + [c] + v[i + 1:])
    elif v is None:
        pass
    elif isinstance(v, dict):
        if 'tuple' in v and len(v) == 1:
            out.append(v['tuple'])
        if 'slot' in v and len(v) == 1:
            out.append({'text': ''})
            out.append({'text': 'a'})
        for key in v:
            for c in _shrink_candidates(v[key]):
                d = dict(v)
                d[key] = c
                out.append(d)
    return out


_PROTECTED = {'op', 'what', 'how', 'q'}


def _cx(v):
    """Complexity measure: shrinking only ever accepts strictly simpler ops (no cycles)."""
    if v is None:
        return 0
    if isinstance(v, bool):
        return 1 if v else 0
    if isinstance(v, int):
        return min(abs(v), 50) * 2 + (1 if v < 0 else 0) + 1
    if isinstance(v, str):
        return 2 + sum(1 if ch in 'ab' else 2 for ch in v) + (1 if v == 'A' else 0)
    if isinstance(v, list):
        return 1 + sum(_cx(x) + 1 for x in v)
    if isinstance(v, dict):
        return 1 + sum(_cx(x) + 1 for x in v.values()) + (3 if 'slot' in v else 0)
    return 1


def _valid_op(op):
    """Shrinking must not turn an op into something the executor cannot interpret."""
    k = op.get('op')
    try:
        if k in ('apply',) and (op.get('st') is None or not isinstance(op.get('top'), bool)):
            return False
        if k in ('apply', 'remove', 'find') and (op.get('a') is None and False):
            return False
        if k in ('new', 'assign', 'setansi') and not isinstance(op.get('text'), str):
            return False
        if k == 'index' and not isinstance(op.get('i'), int):
            return False
        if k == 'pad' and (not isinstance(op.get('w'), int) or not isinstance(op.get('fill'), str) or len(op['fill']) != 1):
            return False
        if k in ('rmfix',) and not isinstance(op.get('x'), str):
            return False
        if k == 'partition' and (not isinstance(op.get('sep'), str)):
            return False
        if k == 'split' and 'sep' in op and op['sep'] is not None and (not isinstance(op['sep'], str) or op['sep'] == ''):
            return False
        if k == 'split' and 'max' in op and not isinstance(op['max'], int):
            return False
        if k == 'replace' and (not isinstance(op.get('old'), str) or ('count' in op and not isinstance(op['count'], int))):
            return False
        if k == 'expandtabs' and 'tab' in op and not isinstance(op['tab'], int):
            return False
        if k == 'fmatch' and (not isinstance(op.get('pat'), str) or not isinstance(op.get('count'), int)):
            return False
        if k == 'strip' and op.get('chars') is not None and not isinstance(op['chars'], str):
            return False
        if k in ('fmt', 'render') and op.get('flags') is not None and (
                not isinstance(op['flags'], list) or len(op['flags']) != 3):
            return False
        if k == 'fmt' and op.get('spec') is not None:
            sp = op['spec']
            if not isinstance(sp, dict):
                return False
            if 'raw' in sp and sp['raw'] not in badops._BAD_SPECS:
                return False
            if sp.get('fill') is not None and (not isinstance(sp['fill'], str) or len(sp['fill']) != 1):
                return False
            if sp.get('fill') is not None and sp.get('align') is None:
                return False
            if sp.get('flag') and sp.get('fill') is None:
                return False
            if sp.get('fill') in ('+', '-') and not sp.get('flag'):
                return False
            if sp.get('width') is not None and (not isinstance(sp['width'], int) or sp['width'] < 0):
                return False
            if sp.get('ansi') is not None and (not isinstance(sp['ansi'], list) or not sp['ansi']):
                return False
            if sp.get('ansi') is not None:
                from . import atoms as _atoms
                if any(i not in _atoms.CATALOGUE for i in sp['ansi']):
                    return False
            if sp.get('align') is not None and sp['align'] not in ('<', '>', '^'):
                return False
            if sp.get('flag') is not None and sp['flag'] not in ('+', '-'):
                return False
        if k == 'query' and op['q'] == 'settings_at' and not all(isinstance(i, int) for i in op.get('idx', [])):
            return False
        if k == 'join' and not isinstance(op.get('xs'), list):
            return False
        for key in ('r', 'd'):
            if key in op and op[key] is not None and not isinstance(op[key], int):
                return False
        if 'r' in op and op['r'] is None:
            return False
        if k == 'bad' and not isinstance(op.get('var'), int):
            return False
        st = op.get('st')
        if st is not None:
            from . import atoms
            ids = atoms.flatten(st)
            if any(i not in atoms.CATALOGUE for i in ids):
                return False
            if not ids and k in ('new', 'conv', 'fmatch'):
                return False
            if atoms.mergeable_adjacent(st):
                return False
    except Exception:
        return False
    return True


def minimise(prop, knobs, history, predicate, max_tests=1500):
    """ddmin over the op list, then argument shrinking, accepting a candidate only if the same
    predicate of the same property fails.  Returns (history, knobs, tests_run)."""
    st = {'tests': 0, 'knobs': dict(knobs)}

    def fails(h, kn=None):
        st['tests'] += 1
        try:
            r = replay_ops(prop, kn or st['knobs'], h)
        except Exception:
            return False
        return same_failure(r, prop, predicate)

    cur = list(history)
    if not fails(cur):
        return cur, st['knobs'], st['tests']
    # ddmin
    n = 2
    while len(cur) >= 2 and st['tests'] < max_tests:
        chunk = max(1, len(cur) // n)
        reduced = False
        for start in range(0, len(cur), chunk):
            cand = cur[:start] + cur[start + chunk:]
            if cand and fails(cand):
                cur = cand
                n = max(n - 1, 2)
                reduced = True
                break
        if not reduced:
            if chunk == 1:
                break
            n = min(len(cur), n * 2)
    # argument shrinking to a fixpoint
    changed = True
    while changed and st['tests'] < max_tests:
        changed = False
        for i in range(len(cur)):
            op = cur[i]
            for key in sorted(op):
                if key in _PROTECTED:
                    continue
                cands = (['S'] if op[key] == 'A' else []) if key == 'cls' else _shrink_candidates(op[key])
                for c in cands:
                    if st['tests'] >= max_tests:
                        break
                    new_op = dict(op)
                    new_op[key] = c
                    if not _valid_op(new_op) or _cx(new_op) >= _cx(op):
                        continue
                    cand = cur[:i] + [new_op] + cur[i + 1:]
                    if fails(cand):
                        cur = cand
                        op = new_op
                        changed = True
                        break
        while st['knobs'].get('pool', 4) > 2 and st['tests'] < max_tests:
            k2 = dict(st['knobs'])
            k2['pool'] -= 1
            if fails(cur, k2):
                st['knobs'] = k2
                changed = True
            else:
                break
        i = 0
        while i < len(cur) and len(cur) > 1 and st['tests'] < max_tests:
            cand = cur[:i] + cur[i + 1:]
            if fails(cand):
                cur = cand
                changed = True
            else:
                i += 1
    return cur, st['knobs'], st['tests']


def write_replay(path, prop, verif_seed, k, knobs, history, violation, note=None):
    doc = {
        'property': prop,
        'seed': verif_seed,
        'run_index': k,
        'knobs': knobs,
        'ops': history,
        'violation': violation.to_json() if violation is not None else None,
        'library_digest': lib.library_digest(),
    }
    if note:
        doc['note'] = note
    os.makedirs(os.path.dirname(path), exist_ok=True)
    with open(path, 'w', encoding='utf-8') as f:
        json.dump(doc, f, indent=1, sort_keys=True, default=repr, ensure_ascii=True)
    return doc


def load_replay(path):
    with open(path, encoding='utf-8') as f:
        return json.load(f)
