"""Loads the library under test from the *current working tree* of the repository.

VERIF_REPO overrides the repository root (used by the mutant self-tests, which run the same
checks against a scratch copy).  The import is verified to come from that root so that a check
can never silently test the wrong code.
"""
import hashlib
import os
import sys

REPO_ROOT = os.path.realpath(os.environ.get('VERIF_REPO', '/repo'))
SRC = os.path.join(REPO_ROOT, 'src')

sys.dont_write_bytecode = True
if SRC in sys.path:
    sys.path.remove(SRC)
sys.path.insert(0, SRC)
for _m in [m for m in sys.modules if m == 'ansi_string' or m.startswith('ansi_string.')]:
    del sys.modules[_m]

import ansi_string  # noqa: E402
from ansi_string import AnsiString, AnsiStr, AnsiFormat, AnsiSetting  # noqa: E402,F401

_file = os.path.realpath(ansi_string.__file__)
if not _file.startswith(SRC + os.sep):
    raise RuntimeError('HARNESS-ERROR: ansi_string imported from %s, expected under %s' % (_file, SRC))


def library_digest() -> str:
    h = hashlib.sha256()
    d = os.path.dirname(_file)
    for name in sorted(os.listdir(d)):
        if name.endswith('.py'):
            with open(os.path.join(d, name), 'rb') as f:
                h.update(name.encode())
                h.update(f.read())
    return h.hexdigest()[:16]


def describe() -> str:
    return 'ansi_string from %s digest=%s python=%s' % (_file, library_digest(), sys.version.split()[0])
