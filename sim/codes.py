"""Harness-side grammar of setting code strings (never consults the library).

 wf(code)        display semantics defined: ';'-separated non-empty ASCII digit tokens forming
                 complete groups (single codes, known or unknown, and 38/48/58 + 5;n / 2;r;g;b
                 with values 0..255).  C01/C03 display clauses are evaluated only on values all
                 of whose settings are wf.
 groups(code)    effect groups a wf code touches (reset touches all; unknown codes none).
 valid_g(code)   C15: no character in 0x40..0x7E.
 parsable_g(code) C15: one complete known SGR parameter group other than reset.
 sim(a, b)       the relation "same settings with the same precedence among conflicting
                 settings" between two cells (tuples of code strings).
"""
from collections import Counter
from functools import lru_cache

from . import terminal as T

ALL_GROUPS = frozenset(T.GROUPS)


def _tokens(code: str):
    toks = code.split(';')
    for t in toks:
        if not (t and t.isascii() and t.isdigit()):
            return None
    return [int(t) for t in toks]


@lru_cache(maxsize=None)
def parse_groups(code: str):
    """Returns a list of complete groups [(ints...)] or None when the code is not wf."""
    toks = _tokens(code)
    if toks is None:
        return None
    out = []
    i = 0
    n = len(toks)
    while i < n:
        p = toks[i]
        if p in T.EXTENDED:
            if i + 2 < n and toks[i + 1] == 5:
                if not 0 <= toks[i + 2] <= 255:
                    return None
                out.append(tuple(toks[i:i + 3]))
                i += 3
            elif i + 1 < n and toks[i + 1] == 2 and i + 4 < n:
                if not all(0 <= x <= 255 for x in toks[i + 2:i + 5]):
                    return None
                out.append(tuple(toks[i:i + 5]))
                i += 5
            else:
                return None
        else:
            out.append((p,))
            i += 1
    return out


def wf(code: str) -> bool:
    return parse_groups(code) is not None


def known_single(p: int) -> bool:
    return p == 0 or p in T.SET or p in T.CLEAR


@lru_cache(maxsize=None)
def groups(code: str) -> frozenset:
    gs = parse_groups(code)
    if gs is None:
        return frozenset()
    out = set()
    for g in gs:
        p = g[0]
        if p == 0:
            return ALL_GROUPS
        if p in T.EXTENDED:
            out.add(T.EXTENDED[p])
        elif p in T.SET:
            out.add(T.SET[p])
        elif p in T.CLEAR:
            out.add(T.CLEAR[p])
    return frozenset(out)


def valid_g(code: str) -> bool:
    return not any(0x40 <= ord(c) <= 0x7E for c in code)


def parsable_g(code: str) -> bool:
    if not valid_g(code):
        return False
    gs = parse_groups(code)
    if gs is None or len(gs) != 1:
        return False
    g = gs[0]
    p = g[0]
    if p == 0:
        return False
    if p in T.EXTENDED:
        return True   # parse_groups already demanded a complete in-range group
    return (p in T.SET or p in T.CLEAR) and p <= 255


def parsable_gating(code: str) -> bool:
    """True when exactness of `parsable` is gated for this text (DESIGN 7.3): the alphabet on
    which 'one complete known SGR parameter group' and the implementation's int() leniency
    cannot reasonably disagree."""
    for i, c in enumerate(code):
        if c == '-':
            # a minus sign directly before a non-zero digit: the value is negative whatever the reading, so it is
            # certainly not "0-255" ('-0' and a dangling '-' stay ungated)
            if not (i + 1 < len(code) and code[i + 1] in '123456789'):
                return False
            continue
        if not (c.isascii() and (c.isdigit() or c in ';:<=>?' or 0x40 <= ord(c) <= 0x7E)):
            return False
    return True


def all_wf(cells) -> bool:
    return all(wf(c) for cell in cells for c in cell)


def eff(cell) -> tuple:
    return T.eff_of_codes(cell)


def eff_group(cell, group):
    for g, v in T.eff_of_codes(cell):
        if g == group:
            return v
    return None


def sim(a, b) -> bool:
    """Same multiset of code strings and, for every effect group, the same subsequence of
    settings touching that group."""
    if a == b:
        return True
    if Counter(a) != Counter(b):
        return False
    gs = set()
    for c in a:
        gs |= groups(c)
    for g in gs:
        if [c for c in a if g in groups(c)] != [c for c in b if g in groups(c)]:
            return False
    return True


def has_conflict(cell) -> bool:
    seen = set()
    for c in cell:
        g = groups(c)
        if seen & g:
            return True
        seen |= g
    return False
