"""An independent SGR terminal: the *peer* that consumes what the library renders.

This module never imports the library.  It is a small ECMA-48 control-sequence tokenizer plus
an SGR (Select Graphic Rendition) state machine over the 14 stateful effect groups the
library's README lists (+ reset).  It is the reference semantics for "what a conforming
terminal displays".

Code table transcribed from ECMA-48 8.3.117 / the README's group list:
  group        set codes                      clear code
  bold         1, 2                           22
  italic       3                              23
  underline    4, 21                          24
  blink        5, 6                           25
  inverse      7                              27
  hide         8                              28
  strike       9                              29
  font         11..20 (10 = default font)     10
  spacing      26                             50
  fg           30..37, 90..97, 38;5;n, 38;2;r;g;b   39
  bg           40..47, 100..107, 48;5;n, 48;2;r;g;b 49
  box          51, 52                         54
  overline     53                             55
  ulcolor      58;5;n, 58;2;r;g;b             59
"""

GROUPS = ('bold', 'italic', 'underline', 'blink', 'inverse', 'hide', 'strike', 'font',
          'spacing', 'fg', 'bg', 'box', 'overline', 'ulcolor')

SET = {}
CLEAR = {}
for _c in (1, 2):
    SET[_c] = 'bold'
SET[3] = 'italic'
for _c in (4, 21):
    SET[_c] = 'underline'
for _c in (5, 6):
    SET[_c] = 'blink'
SET[7] = 'inverse'
SET[8] = 'hide'
SET[9] = 'strike'
for _c in range(11, 21):
    SET[_c] = 'font'
SET[26] = 'spacing'
for _c in list(range(30, 38)) + list(range(90, 98)):
    SET[_c] = 'fg'
for _c in list(range(40, 48)) + list(range(100, 108)):
    SET[_c] = 'bg'
for _c in (51, 52):
    SET[_c] = 'box'
SET[53] = 'overline'
CLEAR.update({22: 'bold', 23: 'italic', 24: 'underline', 25: 'blink', 27: 'inverse', 28: 'hide',
              29: 'strike', 10: 'font', 50: 'spacing', 39: 'fg', 49: 'bg', 54: 'box',
              55: 'overline', 59: 'ulcolor'})
EXTENDED = {38: 'fg', 48: 'bg', 58: 'ulcolor'}
CLEAR_CODE = {g: c for c, g in CLEAR.items()}

ESC = '\x1b'


class Undefined(Exception):
    """The byte stream contains something whose effect ECMA-48 leaves undefined for SGR
    (private parameter bytes, sub-parameters, intermediates).  Display clauses are only
    evaluated on values for which this must not happen."""


def sgr_apply(state: dict, params: list) -> None:
    """Applies a list of integer SGR parameters (already defaulted: empty -> 0) to state."""
    i = 0
    n = len(params)
    while i < n:
        p = params[i]
        if p == 0:
            state.clear()
            i += 1
        elif p in EXTENDED:
            g = EXTENDED[p]
            if i + 1 < n and params[i + 1] == 5:
                if i + 2 < n:
                    if 0 <= params[i + 2] <= 255:
                        state[g] = (p, 5, params[i + 2])
                    i += 3
                else:
                    i = n
            elif i + 1 < n and params[i + 1] == 2:
                if i + 4 < n:
                    rgb = params[i + 2:i + 5]
                    if all(0 <= x <= 255 for x in rgb):
                        state[g] = (p, 2) + tuple(rgb)
                    i += 5
                else:
                    i = n
            else:
                # malformed extended colour: the rest of the sequence cannot be attributed
                raise Undefined('extended colour introducer %d without 5/2 selector' % p)
        elif p in SET:
            state[SET[p]] = (p,)
            i += 1
        elif p in CLEAR:
            state.pop(CLEAR[p], None)
            i += 1
        else:
            # unknown parameter: ignored
            i += 1


def parse_params(pbytes: str) -> list:
    if pbytes == '':
        return [0]
    out = []
    for tok in pbytes.split(';'):
        if tok == '':
            out.append(0)
        elif tok.isascii() and tok.isdigit():
            out.append(int(tok))
        else:
            raise Undefined('non-numeric SGR parameter %r' % tok)
    return out


def tokenize(data: str):
    """Yields ('char', c) and ('csi', params, intermediates, final) events."""
    i = 0
    n = len(data)
    while i < n:
        c = data[i]
        if c == ESC and i + 1 < n and data[i + 1] == '[':
            j = i + 2
            while j < n and 0x30 <= ord(data[j]) <= 0x3F:
                j += 1
            k = j
            while k < n and 0x20 <= ord(data[k]) <= 0x2F:
                k += 1
            if k < n and 0x40 <= ord(data[k]) <= 0x7E:
                yield ('csi', data[i + 2:j], data[j:k], data[k])
                i = k + 1
                continue
            raise Undefined('unterminated or malformed control sequence at %d' % i)
        if c == ESC:
            raise Undefined('bare ESC at %d' % i)
        yield ('char', c)
        i += 1


def freeze(state: dict) -> tuple:
    return tuple(sorted(state.items()))


class Screen:
    """Feeds rendered text through the SGR machine; records each displayed character together
    with the style it is displayed in."""

    def __init__(self, prior: dict = None):
        self.state = dict(prior or {})
        self.cells = []         # list of (char, frozen style)
        self.sgr_count = 0
        self.first_event = None  # ('sgr', params) or ('char', c)

    def feed(self, data: str) -> 'Screen':
        for ev in tokenize(data):
            if ev[0] == 'char':
                if self.first_event is None:
                    self.first_event = ev
                self.cells.append((ev[1], freeze(self.state)))
            else:
                _, pbytes, inter, final = ev
                if final != 'm':
                    raise Undefined('non-SGR control sequence final=%r' % final)
                if inter:
                    raise Undefined('intermediate bytes in SGR')
                params = parse_params(pbytes)
                if self.first_event is None:
                    self.first_event = ('sgr', params)
                self.sgr_count += 1
                sgr_apply(self.state, params)
        return self

    @property
    def text(self) -> str:
        return ''.join(c for c, _ in self.cells)

    def styles(self) -> list:
        return [s for _, s in self.cells]

    def final_state(self) -> tuple:
        return freeze(self.state)


def eff_of_codes(codes, prior: dict = None) -> tuple:
    """Effective style of a character from the ordered settings it reports: the terminal's own
    reading of those code strings, applied in order from the default state."""
    st = dict(prior or {})
    for code in codes:
        sgr_apply(st, parse_params(code))
    return freeze(st)


def dirty_state(variant: int = 0) -> dict:
    """A prior state in which all 14 stateful groups are set (two variants)."""
    if variant % 2 == 0:
        return {'bold': (1,), 'italic': (3,), 'underline': (4,), 'blink': (5,), 'inverse': (7,),
                'hide': (8,), 'strike': (9,), 'font': (13,), 'spacing': (26,), 'fg': (35,),
                'bg': (48, 5, 17), 'box': (51,), 'overline': (53,), 'ulcolor': (58, 5, 9)}
    return {'bold': (2,), 'italic': (3,), 'underline': (21,), 'blink': (6,), 'inverse': (7,),
            'hide': (8,), 'strike': (9,), 'font': (20,), 'spacing': (26,), 'fg': (38, 2, 1, 2, 3),
            'bg': (104,), 'box': (52,), 'overline': (53,), 'ulcolor': (58, 2, 9, 8, 7)}
