"""Scripted prefixes taken from the hazards the property anchors name; a third of the runs start
from one of them and continue randomly, so that operations land where in-flight state exists."""
import copy

S = 'S'
RED, BLUE, BOLD, NOBOLD, UL = 'n:red', 'n:blue', 'n:bold', 'n:no_bold_faint', 'n:underline'


def _new(text, st, d, cls=S):
    return {'op': 'new', 'cls': cls, 'text': text, 'st': st, 'd': d}


def _apply(r, st, a, b, top=True, ip=True, d=None):
    return {'op': 'apply', 'r': r, 'd': r if d is None else d, 'ip': ip, 'st': st, 'a': a, 'b': b, 'top': top}


SCENARIOS = {
    'pad_then_append': [
        _new('ab', [RED], 0),
        {'op': 'pad', 'r': 0, 'd': 0, 'ip': True, 'how': 'center', 'w': 6, 'fill': ' ', 'ext': True},
        {'op': 'add', 'r': 0, 'o': {'text': 'Z'}, 'd': 1},
    ],
    'apply_beyond_len_then_remove': [
        _new('abc', None, 0),
        _apply(0, [BOLD], 1, 10),
        {'op': 'remove', 'r': 0, 'd': 0, 'ip': True, 'st': [BOLD], 'a': 0, 'b': 2},
        {'op': 'add', 'r': 0, 'o': {'text': 'Z'}, 'd': 1},
    ],
    'derive_then_mutate': [
        _new('abcd', [RED], 0),
        {'op': 'slice', 'r': 0, 'a': 1, 'b': 3, 'd': 1},
        _apply(1, [BOLD], 0, None),
        {'op': 'remove', 'r': 0, 'd': 0, 'ip': True, 'st': [RED], 'a': 0, 'b': 2},
    ],
    'conflict_span_end_then_remove': [
        _new('abcd', [RED], 0),
        _apply(0, [BLUE], 0, None),
        _apply(0, [BOLD], 1, 3),
        {'op': 'remove', 'r': 0, 'd': 0, 'ip': True, 'st': [BOLD], 'a': 1, 'b': 2},
    ],
    'equal_settings_at_seam': [
        _new('ab', [RED], 0),
        _new('cd', [RED], 1),
        {'op': 'add', 'r': 0, 'o': {'slot': 1}, 'd': 2},
        {'op': 'add', 'r': 1, 'o': {'text': 'Z'}, 'd': 3},
    ],
    'equal_overlap_stop_at_slice_end': [
        _new('abcd', None, 0),
        _apply(0, [RED], 0, 2),
        _apply(0, [RED], 0, 4),
        {'op': 'slice', 'r': 0, 'a': 0, 'b': 2, 'd': 1},
        {'op': 'add', 'r': 1, 'o': {'text': 'Z'}, 'd': 2},
    ],
    'nobold_bold_then_bold_underneath': [
        _new('ab', [NOBOLD], 0),
        _apply(0, [BOLD], 0, None),
        _apply(0, [BOLD], 0, None, top=False),
    ],
    'replacement_reused': [
        _new('a-b-c', [RED], 0),
        _new('+', [RED], 1),
        {'op': 'replace', 'r': 0, 'd': 2, 'ip': False, 'old': '-', 'new': {'slot': 1}},
    ],
    'self_concat': [
        _new('ab', [RED], 0),
        _apply(0, [BOLD], 1, None),
        {'op': 'iadd', 'r': 0, 'o': {'slot': 0}, 'd': 0, 'ip': True},
    ],
    'negative_index': [
        _new('abc', [RED], 0),
        {'op': 'index', 'r': 0, 'i': -1, 'd': 1},
    ],
    'split_sep_inside_piece': [
        _new('xabbbb', None, 0),
        _apply(0, [RED], 2, 3),
        {'op': 'split', 'r': 0, 'how': 'split', 'sep': 'ab', 'd': 1, 'pick': 1},
    ],
    'ansistr_from_formatted_plus_settings': [
        _new('a', [RED], 0),
        {'op': 'conv', 'r': 0, 'how': 'ctor', 'cls': 'A', 'st': [BOLD], 'd': 1},
        {'op': 'conv', 'r': 1, 'how': 'ctor', 'cls': 'A', 'st': [UL], 'd': 2},
    ],
    'reset_start_optimises_to_nothing': [
        _new('abc', ['n:fg_default'], 0),
        {'op': 'render', 'r': 0, 'flags': [True, True, True], 'd': None},
    ],
    'simplify_bold_plus_rgb': [
        _new('ab', [BOLD, 'h:rgb(1,2,3)'], 0),
        {'op': 'simplify', 'r': 0, 'd': 0, 'ip': True},
    ],
}
NAMES = sorted(SCENARIOS)


CONFLICT_RICH = ['n:red', 'n:blue', 'n:fg_green', 'n:bold', 'n:faint', 'n:underline', 'n:double_underline', 'n:bg_red',
                 'n:bg_blue', 'n:italic', 'i:31', 'i:34', 'h:rgb(1,2,3)', 'n:orange']


def stacked_then_mirror_concat(rng):
    """Generic directed workload for seams that carry several settings: k settings applied to the end
    of the left operand from seed-drawn start indices (so that stacking order and application order
    differ), then a right operand that starts with the same settings, in application order or a
    permutation of it, is appended."""
    n = rng.choice([3, 4, 5])
    k = rng.choice([2, 3, 3, 4, 4])
    ats = [rng.choice(CONFLICT_RICH) for _ in range(k)]
    ops_ = [_new('abcde'[:n], None, 0)]
    for a in ats:
        ops_.append(_apply(0, [a], rng.randrange(n), None, top=rng.random() < 0.8))
    order = list(ats)
    if rng.random() < 0.4:
        rng.shuffle(order)
    ops_.append(_new('xy', order, 1))
    ops_[-1]['star'] = True
    how = rng.random()
    if how < 0.5:
        ops_.append({'op': 'add', 'r': 0, 'o': {'slot': 1}, 'd': 2})
    elif how < 0.8:
        ops_.append({'op': 'iadd', 'r': 0, 'o': {'slot': 1}, 'd': 0, 'ip': True})
    else:
        ops_.append({'op': 'join', 'xs': [{'slot': 0}, {'slot': 1}, {'slot': 1}], 'cls': S, 'd': 2})
    return ops_


def rich_value(rng):
    """A value with a deep stack: 3-5 settings from a conflict-rich list applied over seed-drawn ranges
    (several reaching the end, some nested, some below) so that later random operations act on
    characters carrying three or more settings, equal-valued duplicates and conflicts."""
    n = rng.choice([3, 4, 5, 6])
    text = ''.join(rng.choice('ab-') for _ in range(n))
    ops_ = [_new(text, [rng.choice(CONFLICT_RICH)] if rng.random() < 0.5 else None, 0)]
    pool = [rng.choice(CONFLICT_RICH) for _ in range(3)]     # few distinct atoms -> duplicates and conflicts
    for _ in range(rng.choice([3, 4, 5])):
        a = rng.randrange(n)
        b = None if rng.random() < 0.45 else rng.randint(a + 1, n)
        ops_.append(_apply(0, [rng.choice(pool)], a, b, top=rng.random() < 0.7))
    return ops_


def restart_overlay_remove(rng):
    """Generic directed workload for stop/restart pairs: a setting is applied underneath (topmost=False)
    from a seed-drawn index, which stops and restarts what is active there; more settings from a small
    conflict-rich pool are laid over that index; then the setting that caused the restart is removed
    again (completely or over a range touching the index)."""
    n = rng.choice([3, 4, 5, 6])
    text = ''.join(rng.choice('ab') for _ in range(n))
    pool = [rng.choice(CONFLICT_RICH) for _ in range(3)]
    under = rng.choice(['n:bold', 'n:italic', 'n:underline', 'n:bg_red', 'n:crossed_out'] + pool)
    ops_ = [_new(text, [rng.choice(pool)], 0)]
    p = rng.randrange(1, n)
    for _ in range(rng.choice([0, 0, 1, 1, 2])):
        # further settings leading up to p from different start indices (a restart group of several)
        ops_.append(_apply(0, [rng.choice(pool + ['n:bold', 'n:italic'])], rng.randrange(0, p), None, top=True))
    e = None if rng.random() < 0.4 else rng.randint(p + 1, n)
    ops_.append(_apply(0, [under], p, e, top=False))
    starts = [p]
    if n >= 4 and rng.random() < 0.4:
        # a second stop/restart index made by the same setting (one removal call then handles both)
        p2 = rng.choice([i for i in range(1, n) if i != p])
        ops_.append(_apply(0, [under], p2, None if rng.random() < 0.5 else rng.randint(p2 + 1, n), top=False))
        starts.append(p2)
    for _ in range(rng.choice([1, 2, 2, 3])):
        a = rng.choice(starts) if rng.random() < 0.4 else rng.randrange(0, p + 1)
        b = None if (rng.random() < 0.5 or a + 1 > n) else rng.randint(max(a, p) + 1, n) if max(a, p) + 1 <= n else None
        ops_.append(_apply(0, [rng.choice(pool)], a, b, top=rng.random() < 0.85))
    ra, rb = (0, None) if rng.random() < 0.5 else (rng.randrange(0, p + 1), rng.randint(p, n))
    ops_.append({'op': 'remove', 'r': 0, 'd': 0, 'ip': rng.random() < 0.7, 'st': [under], 'a': ra, 'b': rb})
    return ops_


SAME_FORMS = [['f:red'], ['n:red'], [['f:red']], ['f:bold'], [['n:bold']], ['f:dul_orange'], ['h:rgb(1,2,3)'], ['r:rgb(1,2,3)'],
              {'tuple': ['f:blue']}, ['i:31'], ['l:38,5,200'], ['f:bg_red'], ['a:1'], ['a:34'], 'a:1', ['v:31'], ['a:38;5;200'],
              ['v:01'], ['s:01']]


def nested_equal_spans_then_remove(rng):
    """Generic directed workload for equal-valued settings on nested/overlapping spans: the same settings
    argument (in one of its spellings: AnsiFormat member, name, nested list, helper result, rgb string ...) is
    applied twice on overlapping ranges with another setting in between, then something is removed over a
    range whose bounds are drawn from the span boundaries."""
    n = rng.choice([4, 5, 6])
    text = ''.join(rng.choice('ab') for _ in range(n))
    x = rng.choice(SAME_FORMS)
    y = [rng.choice(CONFLICT_RICH)]
    a1 = rng.randrange(0, n - 1)
    b1 = rng.randint(a1 + 1, n)
    a2 = rng.randrange(a1, b1)
    b2 = rng.randint(a2 + 1, n)
    ops_ = [_new(text, None, 0), _apply(0, x, a1, b1 if rng.random() < 0.7 else None, top=rng.random() < 0.8)]
    if rng.random() < 0.7:
        ops_.append(_apply(0, y, rng.randrange(0, n), None, top=rng.random() < 0.8))
    ops_.append(_apply(0, x, a2, b2 if rng.random() < 0.7 else None, top=rng.random() < 0.8))
    bounds = sorted({0, a1, b1, a2, b2, n})
    ra = rng.choice(bounds[:-1])
    rb = rng.choice([b for b in bounds if b > ra])
    sel = rng.choice([None, x, x, y])
    ops_.append({'op': 'remove', 'r': 0, 'd': 0, 'ip': rng.random() < 0.7, 'st': sel, 'a': ra, 'b': rb})
    return ops_


ESC_PIECES = ['\x1b[1m', '\x1b[31m', '\x1b[0m', '\x1b[m', '\x1b[', '\x1b[3', '\x1b[2J', '\x1b', '\x1b[38;5;200m']


def literal_escape_text(rng):
    """A value whose *base text* contains (pieces of) escape sequences: assign_str takes the text as it is.
    Every later operation has to treat them as ordinary characters - nothing may parse the text again."""
    n = rng.choice([2, 3, 4])
    text = ''.join(rng.choice('ab-') for _ in range(n))
    ops_ = [_new(text, [rng.choice(CONFLICT_RICH)] if rng.random() < 0.7 else None, 0)]
    if rng.random() < 0.6:
        a = rng.randrange(n)
        ops_.append(_apply(0, [rng.choice(CONFLICT_RICH)], a, None if rng.random() < 0.5 else rng.randint(a + 1, n)))
    k = rng.randint(0, n)
    ops_.append({'op': 'assign', 'r': 0, 'text': text[:k] + rng.choice(ESC_PIECES) + text[k:]})
    if rng.random() < 0.4:
        ops_.append({'op': 'conv', 'r': 0, 'how': 'ctor', 'cls': 'A', 'd': 1, 'st': None})
    return ops_


def long_text_far_change_points(rng):
    """A text longer than 256 characters whose style change points lie beyond index 256 (outside the range in
    which equal small integers are one object in CPython), so that later queries, slices and edits land on
    and next to them."""
    n = rng.randint(262, 300)
    unit = rng.choice(['ab', 'ab-', 'a b', 'abc'])
    text = (unit * (n // len(unit) + 1))[:n]
    ops_ = [_new(text, [rng.choice(CONFLICT_RICH)] if rng.random() < 0.4 else None, 0)]
    for _ in range(rng.choice([1, 2, 2, 3])):
        a = rng.randint(257, n - 2)
        b = None if rng.random() < 0.35 else rng.randint(a + 1, n)
        ops_.append(_apply(0, [rng.choice(CONFLICT_RICH)], a, b, top=rng.random() < 0.8))
    return ops_


def same_codes_grouped_differently(rng):
    """Two neighbouring spans whose code sequences read the same but are grouped into settings differently (one
    multi-code setting against the same codes as separate settings): whoever compares stacks by their joined text
    instead of setting by setting confuses them."""
    multi, parts = rng.choice([('v:1;31', ['v:1', 'v:31']), ('v:1;31', ['n:bold', 'n:red']), ('a:4;34', ['i:4', 'i:34']),
                               ('a:4;34', ['n:underline', 'n:blue'])])
    n = rng.choice([4, 5, 6])
    text = ''.join(rng.choice('ab') for _ in range(n))
    k = rng.randrange(1, n)
    first, second = ([multi], parts) if rng.random() < 0.5 else (parts, [multi])
    ops_ = [_new(text, None, 0), _apply(0, first, 0, k), _apply(0, second, k, None if rng.random() < 0.5 else n)]
    if rng.random() < 0.5:
        ops_.append({'op': 'find', 'r': 0, 'st': [multi] if rng.random() < 0.5 else parts, 'a': 0, 'b': None, 'rev': rng.random() < 0.3})
    return ops_


def pick(rng, prop):
    x = rng.random()
    name = rng.choice(NAMES)
    gen = stacked_then_mirror_concat(rng)
    rich = rich_value(rng)
    ror = restart_overlay_remove(rng)
    nes = nested_equal_spans_then_remove(rng)
    esc = literal_escape_text(rng)
    far = long_text_far_change_points(rng)
    grp = same_codes_grouped_differently(rng)
    if x < 0.20:
        return copy.deepcopy(SCENARIOS[name])
    if x < 0.28:
        return gen
    if x < 0.39:
        return rich
    if x < 0.48:
        return ror
    if x < 0.56:
        return nes
    if x < 0.59:
        return esc
    if x < 0.61:
        return far
    if x < 0.63:
        return grp
    return None
