"""The simulator's event alphabet: how each operation descriptor is executed on the real library.

An operation is plain JSON data.  `perform(op, recv, ip, res)` executes it on a receiver value
(AnsiString or AnsiStr) and returns the raw result.  `ip` selects the in-place form for
AnsiString receivers; AnsiStr receivers always produce new values.  `res(desc)` resolves
operand descriptors ({"slot": i} / {"text": s}) to live values.

Nothing here judges a result; see models.py / oracles.py.
"""
import copy
import itertools
import re

from . import atoms, lib
from .obs import S, A, T, kind_of

AnsiString, AnsiStr = lib.AnsiString, lib.AnsiStr

# kinds whose AnsiString method takes inplace=
_INPLACE_KW = {'clip', 'pad', 'case', 'strip', 'rmfix', 'replace', 'expandtabs'}
# kinds that exist only as in-place mutators on AnsiString (copy-then-mutate gives the "new" form)
_MUTATORS = {'apply', 'remove', 'clear', 'fmatch', 'simplify', 'iadd'}
# kinds that never change their receiver
_DERIVERS = {'slice', 'index', 'iter', 'add', 'split', 'splitlines', 'partition', 'fmt', 'render',
             'query', 'find', 'roundtrip', 'conv', 'applymatch'}

RECV_KINDS = _INPLACE_KW | _MUTATORS | _DERIVERS | {'assign', 'setansi', 'bad'}
NO_RECV = {'new', 'join'}


def has_inplace_form(kind: str) -> bool:
    return kind in _INPLACE_KW or kind in _MUTATORS or kind in ('assign', 'setansi')


def mutates_receiver(op, recv_kind) -> bool:
    """Is the receiver entitled to change?"""
    k = op['op']
    if recv_kind != S:
        return False
    if k in ('assign', 'setansi'):
        return True
    if k in _INPLACE_KW or k in _MUTATORS:
        return bool(op.get('ip'))
    if k == 'bad':
        return False
    return False


def compose_spec(sp) -> str:
    """Builds a format spec string from its parts: {"fill","flag","align","width","ansi","raw"}."""
    if sp is None:
        return ''
    if 'raw' in sp:
        return sp['raw']
    s = ''
    if sp.get('fill') is not None:
        s += sp['fill']
    if sp.get('flag'):
        s += sp['flag']
    if sp.get('align'):
        s += sp['align']
    if sp.get('width') is not None:
        s += str(sp['width'])
    if sp.get('ansi') is not None:
        s += ':' + ansi_part(sp['ansi'])
    return s


def ansi_part(ids) -> str:
    return ';'.join(atoms.CATALOGUE[i].arg if atoms.CATALOGUE[i].kind != 'verb' else atoms.CATALOGUE[i].arg
                    for i in ids)


def settings_args(op):
    """(positional settings tuple) for constructors / format_matching: op['st'] is a spec or None;
    op.get('star') passes the top-level items as separate arguments."""
    if op.get('raw') is not None:
        # separate positional ints / ';'-strings that only together form groups (the *fmt tuple is ONE settings list)
        return tuple(op['raw'])
    st = op.get('st')
    if st is None:
        return ()
    if op.get('star') and not isinstance(st, str):
        items = st['tuple'] if isinstance(st, dict) else st
        return tuple(atoms.build(x) for x in items)
    return (atoms.build(st),)


def settings_arg(op):
    st = op.get('st')
    return None if st is None else atoms.build(st)


def _method(v, name, ip, *args, **kw):
    """Calls an editing method in the requested form."""
    if isinstance(v, AnsiStr):
        return getattr(v, name)(*args, **kw)
    return getattr(v, name)(*args, inplace=bool(ip), **kw)


def _mutate(v, ip, fn):
    """Runs an AnsiString in-place mutator in the requested form (fn(obj) mutates obj)."""
    if not ip:
        v = v.copy()
    fn(v)
    return v


def perform(op, v, ip, res):
    k = op['op']
    isA = isinstance(v, AnsiStr)

    if k == 'new':
        cls = AnsiStr if op['cls'] == A else AnsiString
        return cls(op['text'], *settings_args(op))
    if k == 'join':
        cls = AnsiStr if op['cls'] == A else AnsiString
        return cls.join(*[res(x) for x in op['xs']])
    if k == 'conv':
        if op['how'] == 'copy':
            return v.copy()
        cls = AnsiStr if op['cls'] == A else AnsiString
        return cls(v, *settings_args(op))

    if k == 'apply':
        if op.get('kw'):
            # keyword / defaulted argument forms
            a, kw = (settings_arg(op),), {}
            if op['a'] != 0 or op['kw'] > 1:
                kw['start'] = op['a']
            if op['b'] is not None or op['kw'] > 2:
                kw['end'] = op['b']
            if not op['top'] or op['kw'] > 1:
                kw['topmost'] = op['top']
        else:
            a, kw = (settings_arg(op), op['a'], op['b'], op['top']), {}
        if isA:
            return v.apply_formatting(*a, **kw)
        return _mutate(v, ip, lambda o: o.apply_formatting(*a, **kw))
    if k == 'remove':
        if op.get('kw'):
            a, kw = (), {'settings': settings_arg(op)}
            if op['a'] != 0 or op['kw'] > 1:
                kw['start'] = op['a']
            if op['b'] is not None or op['kw'] > 2:
                kw['end'] = op['b']
        else:
            a, kw = (settings_arg(op), op['a'], op['b']), {}
        if isA:
            return v.remove_formatting(*a, **kw)
        return _mutate(v, ip, lambda o: o.remove_formatting(*a, **kw))
    if k == 'clear':
        if isA:
            return v.clear_formatting()
        return _mutate(v, ip, lambda o: o.clear_formatting())
    if k == 'fmatch':
        name = 'format_matching' if op['how'] == 'format' else 'unformat_matching'
        pos = settings_args(op)
        if op.get('none'):
            pos = (None,)
        kw = dict(regex=op['regex'], match_case=op['case'], count=op['count'])
        if op.get('defaults'):
            # leave out every keyword argument that has its documented default value
            for key, dflt in (('regex', False), ('match_case', False), ('count', -1)):
                if kw[key] == dflt and type(kw[key]) is type(dflt):
                    del kw[key]
        if isA:
            return getattr(v, name)(op['pat'], *pos, **kw)
        return _mutate(v, ip, lambda o: getattr(o, name)(op['pat'], *pos, **kw))
    if k == 'applymatch':
        m = list(itertools.islice(re.finditer(op['pat'], v.base_str), op['nth'], op['nth'] + 1))
        if not m:
            return None
        if isA:
            return v.apply_formatting_for_match(settings_arg(op), m[0], op.get('group', 0))
        return _mutate(v, ip, lambda o: o.apply_formatting_for_match(settings_arg(op), m[0], op.get('group', 0)))
    if k == 'simplify':
        if isA:
            return v.simplify()
        return _mutate(v, ip, lambda o: o.simplify())
    if k == 'roundtrip':
        return AnsiString(str(v)) if not isA else AnsiStr(str.__str__(v))

    if k == 'slice':
        if op.get('step1'):
            return v[op['a']:op['b']:1]      # an explicit step of 1 is a step-1 slice
        return v[op['a']:op['b']]
    if k == 'index':
        return v[op['i']]
    if k == 'clip' and op.get('pos'):
        return _method(v, 'clip', ip, op['a'], op['b'])      # positional form
    if k == 'clip':
        kw = {}
        if op.get('a') is not None or op.get('kwa'):
            kw['start'] = op['a']
        if op.get('b') is not None or op.get('kwb'):
            kw['end'] = op['b']
        return _method(v, 'clip', ip, **kw)
    if k == 'iter':
        if not op.get('mutate'):
            return list(v)
        # consume step by step; each yielded item is recorded as it is handed out (exact clone) and
        # then modified in place, as in the "style each character in a loop" idiom
        out = []
        for n, item in enumerate(v):
            # (an AnsiStr item is immutable and is recorded as it is; deepcopy would rebuild it from its payload)
            out.append(copy.deepcopy(item) if isinstance(item, AnsiString) else item)
            if isinstance(item, AnsiString):
                if (n + op['mutate']) % 3 == 0:
                    item.apply_formatting('[1')
                elif (n + op['mutate']) % 3 == 1:
                    item += 'Z'
                else:
                    item.clear_formatting()
        return out

    if k == 'add':
        return v + res(op['o'])
    if k == 'iadd':
        o = res(op['o'])
        if isA or not ip:
            w = v if isA else v.copy()
            w += o
            return w
        w = v
        w += o
        return w

    if k == 'pad':
        how = op['how']
        if how == 'zfill':
            return _method(v, 'zfill', ip, op['w'])
        if isA:
            if op.get('kw'):
                return getattr(v, how)(width=op['w'], fillchar=op['fill'])
            if op['fill'] == ' ' and op.get('default_fill'):
                return getattr(v, how)(op['w'])
            return getattr(v, how)(op['w'], op['fill'])
        if op.get('kw'):
            return getattr(v, how)(fillchar=op['fill'], width=op['w'], extend_formatting=op['ext'], inplace=bool(ip))
        if op['fill'] == ' ' and op.get('default_fill') and op['ext']:
            return getattr(v, how)(op['w'], inplace=bool(ip))
        return getattr(v, how)(op['w'], op['fill'], inplace=bool(ip), extend_formatting=op['ext'])
    if k == 'fmt':
        spec = compose_spec(op['spec'])
        if op.get('flags') is None:
            return format(v, spec)
        o, rs, re_ = op['flags']
        return v.to_str(spec if (spec or op.get('pass_empty')) else None, optimize=o, reset_start=rs, reset_end=re_)
    if k == 'render':
        o, rs, re_ = op['flags']
        return v.to_str(optimize=o, reset_start=rs, reset_end=re_)

    if k == 'case':
        return _method(v, op['how'], ip)
    if k == 'assign':
        v.assign_str(op['text'])
        return v
    if k == 'setansi':
        v.set_ansi_str(op['text'])
        return v
    if k == 'strip':
        if op.get('chars') is None and not op.get('explicit_none'):
            return _method(v, op['how'], ip)
        return _method(v, op['how'], ip, op.get('chars'))
    if k == 'rmfix':
        return _method(v, 'removeprefix' if op['how'] == 'prefix' else 'removesuffix', ip, op['x'])
    if k == 'split':
        args = []
        if op.get('kw'):
            kw = {}
            if 'sep' in op:
                kw['sep'] = op.get('sep')
            if 'max' in op:
                kw['maxsplit'] = op['max']
            return getattr(v, op['how'])(**kw)
        if op.get('sep') is not None or 'max' in op:
            args.append(op.get('sep'))
        if 'max' in op:
            args.append(op['max'])
        return getattr(v, op['how'])(*args)
    if k == 'splitlines':
        if 'keep' in op and op.get('kw'):
            return v.splitlines(keepends=op['keep'])
        return v.splitlines(op['keep']) if 'keep' in op else v.splitlines()
    if k == 'partition':
        return getattr(v, op['how'])(op['sep'])
    if k == 'replace':
        new = res(op['new'])
        args = [op['old'], new]
        if op.get('kw'):
            kw = {'count': op['count']} if 'count' in op else {}
            return _method(v, 'replace', ip, old=op['old'], new=new, **kw)
        if 'count' in op:
            args.append(op['count'])
        return _method(v, 'replace', ip, *args)
    if k == 'expandtabs':
        if 'tab' in op and op.get('kw'):
            return _method(v, 'expandtabs', ip, tabsize=op['tab'])
        if 'tab' in op:
            return _method(v, 'expandtabs', ip, op['tab'])
        return _method(v, 'expandtabs', ip)

    if k == 'find':
        st = settings_arg(op) if op.get('st') is not None else []
        if op.get('kw'):
            kw = {}
            if op['a'] != 0 or op['kw'] > 1:
                kw['start'] = op['a']
            if op['b'] is not None or op['kw'] > 1:
                kw['end'] = op['b']
            if op['rev'] or op['kw'] > 1:
                kw['reverse'] = op['rev']
            return v.find_settings(st, **kw)
        return v.find_settings(st, op['a'], op['b'], op['rev'])
    if k == 'query':
        return query(v, op, res)
    raise AssertionError('unknown op kind %r' % k)


def query(v, op, res):
    q = op['q']
    if q == 'settings_at':
        out = []
        for i in op['idx']:
            lst = v.ansi_settings_at(i)
            codes_ = [str(x) for x in lst]
            if op.get('scribble'):
                # the caller may do what it likes with the returned list
                lst.append('scribble')
                del lst[:1]
            out.append((v.settings_at(i), codes_ if not op.get('scribble') else [str(x) for x in v.ansi_settings_at(i)]))
        return out
    if q == 'flags':
        return (v.is_formatting_valid(), v.is_formatting_parsable(), v.is_optimizable())
    if q == 'eq':
        return v == res(op['o'])
    if q == 'contains':
        return res(op['o']) in v
    if q == 'len':
        return len(v)
    if q == 'base_str':
        return v.base_str
    if q == 'encode':
        return v.encode(*op.get('args', ()))
    if q == 'repr':
        return repr(v) if not isinstance(v, AnsiStr) else str.__repr__(v)
    if q in ('count', 'find', 'rfind', 'index', 'rindex', 'endswith'):
        return getattr(v, q)(*op['args'])
    if q in ('isalnum', 'isalpha', 'isascii', 'isdecimal', 'isdigit', 'isidentifier', 'islower', 'isnumeric',
             'isprintable', 'isspace', 'istitle', 'isupper'):
        return getattr(v, q)()
    raise AssertionError('unknown query %r' % q)


def result_shape(op) -> str:
    """'value' | 'values' | 'str' | 'other'"""
    k = op['op']
    if k in ('iter', 'split', 'splitlines', 'partition'):
        return 'values'
    if k in ('fmt', 'render'):
        return 'str'
    if k in ('find', 'query', 'bad'):
        return 'other'
    return 'value'
