"""Writes /verif/evidence/<id>.json from what the run actually measured."""
import json
import os

from . import lib

ROOT = os.path.dirname(os.path.dirname(os.path.abspath(__file__)))

RULES = {
    'C01': 'a step after which a touched value has >= 2 change points or a character with conflicting settings, and all '
           '10 renderings of it were read by the terminal stub',
    'C03': 'roundtrip/simplify step on a value with a multi-parameter colour next to another setting, conflicting or '
           'shadowed settings, or a non-parsable setting',
    'C04': 'slice/index/clip/iter step on a formatted value where a bound coincides with or is adjacent to a change point',
    'C05': 'add/iadd/join step where both neighbours at a seam carry settings',
    'C06': 'apply_formatting step where a setting of the same effect group is already active inside the range',
    'C07': 'remove_formatting step where >= 2 settings span the range end or the selection hits a duplicated setting',
    'C08': 'in-place step that changed its receiver while >= 2 non-empty AnsiString/AnsiStr values are alive in the pool',
    'C09': 'an injected failing call that raised on a value with >= 2 change points',
    'C11': 'editing/substring step on a non-uniformly formatted receiver',
    'C12': 'padding step with width > length on a non-uniformly formatted value, or format spec with padding on a formatted value',
    'C13': 'twin step whose AnsiString result carries settings',
    'C15': 'a step after which a touched value uses a non-parsable (verbatim) setting',
    'C16': 'format/unformat_matching step with >= 1 non-empty match on a value with prior formatting',
    'C17': 'find_settings query whose selection is present on a proper sub-range of the receiver',
}

EXPECTED_PROBES = {
    'C01': ['sgr_equals_style_changes', 'sgr_more_than_style_changes', 'reset_and_reemit'],
    'C04': ['empty_slice_of_formatted', 'bound_on_change_point', 'bound_next_to_change_point', 'negative_bound',
            'bound_beyond_length', 'equal_settings_overlap_in_range'],
    'C09': ['iterator_source_changed_between_nexts'],
    'C05': ['plain_operand_with_escape', 'seam_equal_settings', 'seam_prefix_equal', 'seam_partly_equal', 'seam_different', 'seam_one_side_plain',
            'empty_operand', 'self_operand'],
    'C06': ['topmost_with_conflict', 'topmost_no_conflict', 'not_topmost_with_conflict', 'not_topmost_no_conflict',
            'end_beyond_length', 'negative_bound', 'change_point_inside_range'],
    'C07': ['selection_none', 'selection_absent', 'selection_present', 'selection_hits_equal_instances',
            'selection_hidden_below_conflicting', 'two_or_more_span_range_end'],
    'C03': ['multi_parameter_colour_next_to_other_setting', 'conflicting_or_shadowed_settings', 'invalid_setting_present',
            'unparsable_setting_present'],
    'C11': ['non_uniform_receiver:split', 'non_uniform_receiver:replace', 'non_uniform_receiver:strip',
            'non_uniform_receiver:partition', 'non_uniform_receiver:splitlines', 'non_uniform_receiver:assign',
            'replace_plain_with_escape', 'replace_two_or_more_matches_plain', 'replace_two_or_more_matches_formatted_replacement',
            'pieces_of_formatted_receiver', 'separator_text_recurs_in_piece'],
    'C16': ['empty_match', 'adjacent_matches', 'count_cuts_matches', 'case_insensitivity_matters',
            'plain_pattern_with_metacharacters'],
    'C17': ['found_forward', 'found_reverse', 'start_inside_a_run', 'selection_on_proper_subrange', 'bound_beyond_length'],
    'C12': ['pad_left_extend_formatted', 'pad_left_no_extend_formatted', 'pad_right_only_extend_formatted',
            'pad_right_only_no_extend_formatted', 'center_odd_padding', 'fill_is_grammar_character'],
}

COMPONENTS = {
    'ansi_string package (ansi_string.py, ansi_parsing.py, ansi_format.py, ansi_param.py, utils.py)': 'real code',
    'SGR terminal consuming rendered output (sim/terminal.py)': 'stub (independent ECMA-48 CSI tokenizer + SGR state machine)',
    'python str / format / re': 'real, used as reference for text and match positions',
    'scheduler, workload, failing-call injector, step clock': 'the simulator',
}

ASSUMPTIONS = [
    'observation goes through base_str / ansi_settings_at / rendering only; order of non-conflicting settings is never compared',
    'settings atoms whose spelling->codes mapping the library does not honour (C14, not claimed) are excluded from histories',
    'display clauses are evaluated only for values without ESC in the text and with numeric well-formed settings',
    'sampling, not enumeration: a clean batch is evidence, not proof; sizes bounded (text <= 64, pool <= 6, history <= 120)',
]


def write(prop, tier, seed, total, stats, nontrivial, states, samples, sweep_info, known_seen, reg_n, wall, violations,
          excluded, nruns, long_every, digest):
    faults = {k.split(':', 1)[1]: v for k, v in stats.items() if k.startswith('fault:')}
    faults_not_raised = {k.split(':', 1)[1]: v for k, v in stats.items() if k.startswith('fault_not_raised:')}
    ops_hist = {k.split(':', 1)[1]: v for k, v in stats.items() if k.startswith('op:')}
    skipped = {k.split(':', 1)[1]: v for k, v in stats.items() if k.startswith('skipped:')}
    other = {k: v for k, v in stats.items() if ':' not in k}
    probes = {k.split(':', 1)[1]: v for k, v in stats.items() if k.startswith('probe:')}
    for name in EXPECTED_PROBES.get(prop, ()):
        probes.setdefault(name, 0)
    gaps = sorted(k for k, v in probes.items() if v == 0)
    if gaps:
        print('coverage gap: probes never hit in this run: %s' % ', '.join(gaps))
    if not samples:
        samples = [{'note': 'no short non-trivial history was sampled in this run'}]
    distinct_nt = len(nontrivial) + (sweep_info.get('cases', 0) if sweep_info.get('exhaustive_sweep') else 0)
    cov = {
        'evaluations': total['runs'] + sweep_info.get('cases', 0),
        'distinct_nontrivial': distinct_nt,
        'rule': 'each evaluation is one seeded history (run index k -> random.Random(VERIF_SEED*1000003+k)) of %s steps '
                'executed on the real library with every step judged; non-trivial: %s; distinct: by digest of (knobs, op list)'
                % ('4-25 (every %dth run 60-120)' % long_every if long_every else '4-25', RULES[prop]),
        'samples': samples,
        'runs': total['runs'],
        'steps': total['steps'],
        'runs_per_hour': int(total['runs'] / max(wall, 1e-9) * 3600),
        'seeds': {'verif_seed': seed, 'first_run_index': 0, 'last_run_index': nruns - 1},
        'sim_time_events': total['events'],
        'faults_injected': faults,
        'faults_not_raised': faults_not_raised,
        'ops_histogram': ops_hist,
        'distinct_states': len(states),
        'distinct_state_measure': 'distinct (text, per-character code lists) of values touched by a step',
        'probes': probes,
        'skipped': skipped,
        'counters': other,
        'regression_witnesses_replayed': reg_n,
        'known_findings_seen': known_seen,
        'atoms_excluded': excluded,
        'components': COMPONENTS,
        'library_root': lib.REPO_ROOT,
        'library_digest': lib.library_digest(),
        'observation_digest': digest,
        'exhaustive': False,
    }
    if sweep_info.get('cases'):
        cov['sweep'] = {k: v for k, v in sweep_info.items() if k not in ('violation', 'replay')}
    doc = {
        'property_id': prop,
        'tier': tier,
        'seed': seed,
        'level': 'exploration',
        'coverage': cov,
        'assumptions': ASSUMPTIONS,
        'wall_s': round(wall, 2),
        'violations': violations,
    }
    os.makedirs(os.path.join(ROOT, 'evidence'), exist_ok=True)
    path = os.path.join(ROOT, 'evidence', '%s.json' % prop)
    with open(path, 'w', encoding='utf-8') as f:
        json.dump(doc, f, indent=1, sort_keys=True, default=repr)
    return path
